//! Verification prelude: environment models substituted for std/tokio/lru/zstd/rand/tracing
//! when chitchat is compiled for Kani (see /verif/DESIGN.md section 2.2). Only compiled under cfg(kani).
#![allow(dead_code)]
pub mod collections {
    //! Fixed-capacity slot models of std's BTreeMap / HashMap / HashSet.
    //!
    //! Representation: `occ[i]` (plain bools) says whether slot `i` holds an element, the element itself
    //! lives in a `MaybeUninit`. Occupancy deliberately does not go through `Option`: rustc stores the
    //! `None` discriminant in a niche of the payload (e.g. a `bool` field of the key), CBMC then sees the
    //! discriminant through a byte-level update and no longer constant-folds it; every slot of a freshly
    //! built map looked "possibly occupied" and the solver had to explore `Vec` re-allocation with symbolic
    //! sizes (measured: 12 GB for one insert). Elements are never moved between slots; ordered iteration
    //! selects through the occupied slots. Maps are leaked, not dropped.
    use std::borrow::Borrow;
    use std::cmp::Ordering as O;
    use std::mem::MaybeUninit;
    use std::ops::{Bound, RangeBounds};
    pub const CAP: usize = 4;

    pub struct Slots<T> { pub(crate) occ: [bool; CAP], pub(crate) s: [MaybeUninit<T>; CAP] }
    impl<T> Slots<T> {
        pub(crate) fn new() -> Self { Slots { occ: [false; CAP], s: [const { MaybeUninit::uninit() }; CAP] } }
        #[inline] pub(crate) fn get(&self, i: usize) -> &T { unsafe { self.s[i].assume_init_ref() } }
        #[inline] pub(crate) fn get_mut(&mut self, i: usize) -> &mut T { unsafe { self.s[i].assume_init_mut() } }
        #[inline] pub(crate) fn put(&mut self, i: usize, t: T) { self.s[i].write(t); self.occ[i] = true; }
        #[inline] pub(crate) fn take(&mut self, i: usize) -> T { self.occ[i] = false; unsafe { self.s[i].assume_init_read() } }
        pub(crate) fn len(&self) -> usize { let mut n = 0; let mut i = 0; while i < CAP { if self.occ[i] { n += 1; } i += 1; } n }
        pub(crate) fn free(&self) -> usize {
            let mut i = 0;
            while i < CAP { if !self.occ[i] { return i; } i += 1; }
            // capacity of the model exceeded: outside the verified bound, cut the path
            kani::assume(false);
            unreachable!()
        }
    }
    impl<T: Clone> Clone for Slots<T> {
        fn clone(&self) -> Self {
            let mut n = Slots::new();
            let mut i = 0;
            while i < CAP { if self.occ[i] { n.put(i, self.get(i).clone()); } i += 1; }
            n
        }
    }
    impl<T: std::fmt::Debug> std::fmt::Debug for Slots<T> { fn fmt(&self, f: &mut std::fmt::Formatter<'_>) -> std::fmt::Result { f.write_str("Slots") } }

    /// by-value slot iterator in slot order
    pub struct SlotIntoIter<T> { sl: Slots<T>, i: usize }
    impl<T> Iterator for SlotIntoIter<T> {
        type Item = T;
        fn next(&mut self) -> Option<T> {
            while self.i < CAP { let i = self.i; self.i += 1; if self.sl.occ[i] { return Some(self.sl.take(i)); } }
            None
        }
    }
    /// by-reference slot iterator in slot order
    pub struct SlotIter<'a, T> { sl: &'a Slots<T>, i: usize }
    impl<'a, T> Clone for SlotIter<'a, T> { fn clone(&self) -> Self { SlotIter { sl: self.sl, i: self.i } } }
    impl<'a, T> Iterator for SlotIter<'a, T> {
        type Item = &'a T;
        fn next(&mut self) -> Option<&'a T> {
            while self.i < CAP { let i = self.i; self.i += 1; if self.sl.occ[i] { return Some(self.sl.get(i)); } }
            None
        }
    }

    // ---------------- BTreeMap ----------------
    #[derive(Clone, Debug)]
    pub struct BTreeMap<K, V> { pub(crate) sl: Slots<(K, V)> }
    impl<K, V> Default for BTreeMap<K, V> { fn default() -> Self { BTreeMap { sl: Slots::new() } } }
    impl<K: Ord, V: PartialEq> PartialEq for BTreeMap<K, V> {
        fn eq(&self, o: &Self) -> bool {
            if self.len() != o.len() { return false; }
            let mut i = 0;
            while i < CAP {
                if self.sl.occ[i] { let (k, v) = self.sl.get(i); match o.get(k) { Some(v2) if v2 == v => {}, _ => return false } }
                i += 1;
            }
            true
        }
    }
    impl<K: Ord, V: Eq> Eq for BTreeMap<K, V> {}
    #[derive(Clone, Copy)]
    pub struct SortedIdx { ord: [usize; CAP], lo: usize, hi: usize }
    impl<K: Ord, V> BTreeMap<K, V> {
        pub fn new() -> Self { BTreeMap { sl: Slots::new() } }
        pub fn len(&self) -> usize { self.sl.len() }
        pub fn is_empty(&self) -> bool { self.len() == 0 }
        fn pos<Q: Ord + ?Sized>(&self, k: &Q) -> Option<usize> where K: Borrow<Q> {
            let mut i = 0;
            while i < CAP { if self.sl.occ[i] && self.sl.get(i).0.borrow().cmp(k) == O::Equal { return Some(i); } i += 1; }
            None
        }
        /// indices of occupied slots in ascending key order (selection, no moves)
        fn order(&self) -> SortedIdx {
            let mut ord = [0usize; CAP];
            let mut used = [false; CAP];
            let mut n = 0;
            let mut round = 0;
            while round < CAP {
                let mut best: Option<usize> = None;
                let mut i = 0;
                while i < CAP {
                    if self.sl.occ[i] && !used[i] {
                        match best { None => best = Some(i), Some(b) => { if self.sl.get(i).0.cmp(&self.sl.get(b).0) == O::Less { best = Some(i); } } }
                    }
                    i += 1;
                }
                match best { Some(b) => { used[b] = true; ord[n] = b; n += 1; } None => break }
                round += 1;
            }
            SortedIdx { ord, lo: 0, hi: n }
        }
        pub fn get<Q: Ord + ?Sized>(&self, k: &Q) -> Option<&V> where K: Borrow<Q> { match self.pos(k) { Some(i) => Some(&self.sl.get(i).1), None => None } }
        pub fn get_mut<Q: Ord + ?Sized>(&mut self, k: &Q) -> Option<&mut V> where K: Borrow<Q> { match self.pos(k) { Some(i) => Some(&mut self.sl.get_mut(i).1), None => None } }
        pub fn contains_key<Q: Ord + ?Sized>(&self, k: &Q) -> bool where K: Borrow<Q> { self.pos(k).is_some() }
        pub fn insert(&mut self, k: K, v: V) -> Option<V> {
            match self.pos(&k) {
                Some(i) => Some(std::mem::replace(&mut self.sl.get_mut(i).1, v)),
                None => { let i = self.sl.free(); self.sl.put(i, (k, v)); None }
            }
        }
        pub fn remove<Q: Ord + ?Sized>(&mut self, k: &Q) -> Option<V> where K: Borrow<Q> { match self.pos(k) { Some(i) => Some(self.sl.take(i).1), None => None } }
        pub fn iter(&self) -> Iter<'_, K, V> { Iter { m: self, o: self.order() } }
        pub fn keys(&self) -> Keys<'_, K, V> { Keys(self.iter()) }
        pub fn values(&self) -> Values<'_, K, V> { Values(self.iter()) }
        pub fn values_mut(&mut self) -> ValuesMut<'_, K, V> { let o = self.order(); ValuesMut { m: self as *mut _, o, _p: std::marker::PhantomData } }
        pub fn into_values(self) -> IntoValues<K, V> { let o = self.order(); IntoValues { sl: self.sl, o } }
        pub fn retain<F: FnMut(&K, &mut V) -> bool>(&mut self, mut f: F) {
            let o = self.order();
            let mut j = 0;
            while j < o.hi { let i = o.ord[j]; let keep = { let e = self.sl.get_mut(i); f(&e.0, &mut e.1) }; if !keep { let _ = self.sl.take(i); } j += 1; }
        }
        pub fn entry(&mut self, k: K) -> btree_map::Entry<'_, K, V> {
            let pos = self.pos(&k);
            unsafe {
                btree_map::CUR_GEN += 1;
                btree_map::CUR_MAP = self as *mut BTreeMap<K, V> as *mut u8;
                match pos {
                    Some(i) => btree_map::Entry::Occupied(btree_map::OccupiedEntry { idx: i, generation: btree_map::CUR_GEN, _p: std::marker::PhantomData }),
                    None => { btree_map::CUR_KEY = Box::into_raw(Box::new(k)) as *mut u8; btree_map::Entry::Vacant(btree_map::VacantEntry { _p: std::marker::PhantomData }) }
                }
            }
        }
        pub fn range<T: Ord + ?Sized, R: RangeBounds<T>>(&self, range: R) -> Range<'_, K, V, T> where K: Borrow<T> {
            let lo = match range.start_bound() { Bound::Included(b) => Some((b as *const T, true)), Bound::Excluded(b) => Some((b as *const T, false)), Bound::Unbounded => None };
            let hi = match range.end_bound() { Bound::Included(b) => Some((b as *const T, true)), Bound::Excluded(b) => Some((b as *const T, false)), Bound::Unbounded => None };
            if let (Some((l, li)), Some((h, hinc))) = (lo, hi) {
                let (l, h) = unsafe { (&*l, &*h) };
                // std's own panics (C15 depends on them)
                match l.cmp(h) { O::Greater => panic!("range start is greater than range end in BTreeMap"), O::Equal if !li && !hinc => panic!("range start and end are equal and excluded in BTreeMap"), _ => {} }
            }
            Range { it: self.iter(), lo, hi }
        }
    }
    pub struct Range<'a, K, V, T: ?Sized> { it: Iter<'a, K, V>, lo: Option<(*const T, bool)>, hi: Option<(*const T, bool)> }
    impl<'a, K: Borrow<T>, V, T: Ord + ?Sized> Iterator for Range<'a, K, V, T> {
        type Item = (&'a K, &'a V);
        fn next(&mut self) -> Option<Self::Item> {
            loop {
                let (k, v) = self.it.next()?;
                let kb: &T = k.borrow();
                if let Some((l, inc)) = self.lo { let l = unsafe { &*l }; match kb.cmp(l) { O::Less => continue, O::Equal if !inc => continue, _ => {} } }
                if let Some((h, inc)) = self.hi { let h = unsafe { &*h }; match kb.cmp(h) { O::Greater => return None, O::Equal if !inc => return None, _ => {} } }
                return Some((k, v));
            }
        }
    }
    pub struct Iter<'a, K, V> { m: &'a BTreeMap<K, V>, o: SortedIdx }
    impl<'a, K, V> Clone for Iter<'a, K, V> { fn clone(&self) -> Self { Iter { m: self.m, o: self.o } } }
    impl<'a, K, V> Iterator for Iter<'a, K, V> {
        type Item = (&'a K, &'a V);
        fn next(&mut self) -> Option<Self::Item> {
            if self.o.lo >= self.o.hi { return None; }
            let e = self.m.sl.get(self.o.ord[self.o.lo]); self.o.lo += 1; Some((&e.0, &e.1))
        }
    }
    impl<'a, K, V> DoubleEndedIterator for Iter<'a, K, V> {
        fn next_back(&mut self) -> Option<Self::Item> {
            if self.o.lo >= self.o.hi { return None; }
            self.o.hi -= 1; let e = self.m.sl.get(self.o.ord[self.o.hi]); Some((&e.0, &e.1))
        }
    }
    pub struct Keys<'a, K, V>(Iter<'a, K, V>);
    impl<'a, K, V> Iterator for Keys<'a, K, V> { type Item = &'a K; fn next(&mut self) -> Option<&'a K> { self.0.next().map(|e| e.0) } }
    impl<'a, K, V> DoubleEndedIterator for Keys<'a, K, V> { fn next_back(&mut self) -> Option<&'a K> { self.0.next_back().map(|e| e.0) } }
    pub struct Values<'a, K, V>(Iter<'a, K, V>);
    impl<'a, K, V> Iterator for Values<'a, K, V> { type Item = &'a V; fn next(&mut self) -> Option<&'a V> { self.0.next().map(|e| e.1) } }
    impl<'a, K, V> DoubleEndedIterator for Values<'a, K, V> { fn next_back(&mut self) -> Option<&'a V> { self.0.next_back().map(|e| e.1) } }
    pub struct ValuesMut<'a, K, V> { m: *mut BTreeMap<K, V>, o: SortedIdx, _p: std::marker::PhantomData<&'a mut V> }
    impl<'a, K: 'a, V: 'a> Iterator for ValuesMut<'a, K, V> {
        type Item = &'a mut V;
        fn next(&mut self) -> Option<&'a mut V> {
            if self.o.lo >= self.o.hi { return None; }
            let i = self.o.ord[self.o.lo]; self.o.lo += 1;
            Some(unsafe { &mut (*self.m).sl.get_mut(i).1 })
        }
    }
    impl<'a, K: Ord, V> IntoIterator for &'a BTreeMap<K, V> { type Item = (&'a K, &'a V); type IntoIter = Iter<'a, K, V>; fn into_iter(self) -> Iter<'a, K, V> { self.iter() } }
    impl<K: Ord, V> FromIterator<(K, V)> for BTreeMap<K, V> { fn from_iter<I: IntoIterator<Item = (K, V)>>(it: I) -> Self { let mut m = BTreeMap::new(); for (k, v) in it { m.insert(k, v); } m } }
    impl<K, V> serde::Serialize for BTreeMap<K, V> { fn serialize<S: serde::Serializer>(&self, _s: S) -> Result<S::Ok, S::Error> { unreachable!() } }
    impl<'de, K, V> serde::Deserialize<'de> for BTreeMap<K, V> { fn deserialize<D: serde::Deserializer<'de>>(_d: D) -> Result<Self, D::Error> { unreachable!() } }

    /// by-value iteration in key order
    pub struct IntoValues<K, V> { sl: Slots<(K, V)>, o: SortedIdx }
    impl<K, V> Iterator for IntoValues<K, V> {
        type Item = V;
        fn next(&mut self) -> Option<V> {
            if self.o.lo >= self.o.hi { return None; }
            let i = self.o.ord[self.o.lo]; self.o.lo += 1;
            Some(self.sl.take(i).1)
        }
    }
    impl<K, V> DoubleEndedIterator for IntoValues<K, V> {
        fn next_back(&mut self) -> Option<V> {
            if self.o.lo >= self.o.hi { return None; }
            self.o.hi -= 1; let i = self.o.ord[self.o.hi];
            Some(self.sl.take(i).1)
        }
    }
    /// `rev()` / `flat_map()` on the by-value iterator are inherent methods (they shadow the std adaptors):
    /// std's lazy `FlattenCompat<_, vec::IntoIter<T>>` keeps an `Option<vec::IntoIter>` that is re-assigned
    /// inside a loop. The replacement evaluates eagerly into a fixed array: same items, same order; the
    /// mapping closure runs for every outer element even if the consumer stops early (chitchat's closure
    /// only shuffles).
    pub struct RevIntoValues<K, V>(IntoValues<K, V>);
    impl<K, V> Iterator for RevIntoValues<K, V> { type Item = V; fn next(&mut self) -> Option<V> { self.0.next_back() } }
    /// fixed-capacity by-value iterator (no heap, no growth path)
    pub struct ArrayIter<T> { sl: Slots<T>, i: usize, n: usize }
    impl<T> Iterator for ArrayIter<T> {
        type Item = T;
        fn next(&mut self) -> Option<T> { if self.i >= self.n { return None; } let i = self.i; self.i += 1; Some(self.sl.take(i)) }
    }
    fn eager_flat_map<I: Iterator, U: IntoIterator, F: FnMut(I::Item) -> U>(it: I, mut f: F) -> ArrayIter<U::Item> {
        let mut out: ArrayIter<U::Item> = ArrayIter { sl: Slots::new(), i: 0, n: 0 };
        for v in it {
            for x in f(v) {
                if out.n >= CAP { kani::assume(false); }
                out.sl.put(out.n, x);
                out.n += 1;
            }
        }
        out
    }
    impl<K, V> IntoValues<K, V> {
        pub fn rev(self) -> RevIntoValues<K, V> { RevIntoValues(self) }
        pub fn flat_map<U: IntoIterator, F: FnMut(V) -> U>(self, f: F) -> ArrayIter<U::Item> { eager_flat_map(self, f) }
    }
    impl<K, V> RevIntoValues<K, V> {
        pub fn flat_map<U: IntoIterator, F: FnMut(V) -> U>(self, f: F) -> ArrayIter<U::Item> { eager_flat_map(self, f) }
    }

    pub mod btree_map {
        //! `Entry` must stay an enum with `Occupied` / `Vacant` variants (chitchat matches on them), but its
        //! variants carry no pointer and only one of them carries data. Reason (measured, CBMC 6.11): symex
        //! field-sensitivity splits a Rust enum's payload union into per-variant symbols and assigns the symbols
        //! of every variant through the *first* variant's access path; a pointer written through a non-first
        //! variant (`Vacant { map, key }`) comes back as an expression CBMC cannot fold, the map pointer becomes
        //! "any object", and `Vec::push` explores re-allocation with symbolic sizes (10 GB instead of 0.3 GB).
        //! The map pointer and the pending key of the (single) live entry are therefore kept in statics;
        //! a generation counter asserts that entries are not interleaved.
        use super::BTreeMap;
        use std::marker::PhantomData;
        pub(super) static mut CUR_MAP: *mut u8 = std::ptr::null_mut();
        pub(super) static mut CUR_KEY: *mut u8 = std::ptr::null_mut();
        pub(super) static mut CUR_GEN: u64 = 0;
        pub enum Entry<'a, K, V> { Occupied(OccupiedEntry<'a, K, V>), Vacant(VacantEntry<'a, K, V>) }
        pub struct OccupiedEntry<'a, K, V> { pub(super) idx: usize, pub(super) generation: u64, pub(super) _p: PhantomData<&'a mut BTreeMap<K, V>> }
        pub struct VacantEntry<'a, K, V> { pub(super) _p: PhantomData<&'a mut BTreeMap<K, V>> }
        impl<'a, K, V> OccupiedEntry<'a, K, V> {
            fn map(&self) -> &'a mut BTreeMap<K, V> { unsafe { assert!(CUR_GEN == self.generation, "model: interleaved map entries"); &mut *(CUR_MAP as *mut BTreeMap<K, V>) } }
            pub fn get(&self) -> &V { &self.map().sl.get(self.idx).1 }
            pub fn get_mut(&mut self) -> &mut V { &mut self.map().sl.get_mut(self.idx).1 }
            pub fn into_mut(self) -> &'a mut V { &mut self.map().sl.get_mut(self.idx).1 }
            pub fn key(&self) -> &K { &self.map().sl.get(self.idx).0 }
            pub fn insert(&mut self, v: V) -> V { std::mem::replace(self.get_mut(), v) }
            pub fn remove(self) -> V { self.map().sl.take(self.idx).1 }
        }
        impl<'a, K: Ord, V> VacantEntry<'a, K, V> {
            pub fn insert(self, v: V) -> &'a mut V {
                let (map, key) = unsafe { (&mut *(CUR_MAP as *mut BTreeMap<K, V>), *Box::from_raw(CUR_KEY as *mut K)) };
                let i = map.sl.free(); map.sl.put(i, (key, v)); &mut map.sl.get_mut(i).1
            }
            pub fn key(&self) -> &K { unsafe { &*(CUR_KEY as *const K) } }
        }
        impl<'a, K: Ord, V> Entry<'a, K, V> {
            pub fn or_default(self) -> &'a mut V where V: Default { match self { Entry::Occupied(o) => o.into_mut(), Entry::Vacant(v) => v.insert(V::default()) } }
            pub fn or_insert(self, d: V) -> &'a mut V { match self { Entry::Occupied(o) => o.into_mut(), Entry::Vacant(v) => v.insert(d) } }
            pub fn or_insert_with<F: FnOnce() -> V>(self, f: F) -> &'a mut V { match self { Entry::Occupied(o) => o.into_mut(), Entry::Vacant(v) => v.insert(f()) } }
        }
    }

    // ---------------- HashMap ----------------
    #[derive(Clone, Debug)]
    pub struct HashMap<K, V> { pub(crate) sl: Slots<(K, V)> }
    impl<K, V> Default for HashMap<K, V> { fn default() -> Self { HashMap { sl: Slots::new() } } }
    impl<K: Eq, V: PartialEq> PartialEq for HashMap<K, V> {
        fn eq(&self, o: &Self) -> bool {
            if self.len() != o.len() { return false; }
            let mut i = 0;
            while i < CAP {
                if self.sl.occ[i] { let (k, v) = self.sl.get(i); match o.get(k) { Some(v2) if v2 == v => {}, _ => return false } }
                i += 1;
            }
            true
        }
    }
    pub struct PairIter<'a, K, V>(SlotIter<'a, (K, V)>);
    impl<'a, K, V> Iterator for PairIter<'a, K, V> { type Item = (&'a K, &'a V); fn next(&mut self) -> Option<Self::Item> { self.0.next().map(|e| (&e.0, &e.1)) } }
    pub struct HKeys<'a, K, V>(SlotIter<'a, (K, V)>);
    impl<'a, K, V> Clone for HKeys<'a, K, V> { fn clone(&self) -> Self { HKeys(self.0.clone()) } }
    impl<'a, K, V> Iterator for HKeys<'a, K, V> { type Item = &'a K; fn next(&mut self) -> Option<&'a K> { self.0.next().map(|e| &e.0) } }
    pub struct HValues<'a, K, V>(SlotIter<'a, (K, V)>);
    impl<'a, K, V> Iterator for HValues<'a, K, V> { type Item = &'a V; fn next(&mut self) -> Option<&'a V> { self.0.next().map(|e| &e.1) } }
    impl<K: Eq, V> HashMap<K, V> {
        pub fn new() -> Self { HashMap { sl: Slots::new() } }
        pub fn len(&self) -> usize { self.sl.len() }
        pub fn is_empty(&self) -> bool { self.len() == 0 }
        fn pos<Q: Eq + ?Sized>(&self, k: &Q) -> Option<usize> where K: Borrow<Q> {
            let mut i = 0;
            while i < CAP { if self.sl.occ[i] && self.sl.get(i).0.borrow() == k { return Some(i); } i += 1; }
            None
        }
        pub fn get<Q: Eq + ?Sized>(&self, k: &Q) -> Option<&V> where K: Borrow<Q> { match self.pos(k) { Some(i) => Some(&self.sl.get(i).1), None => None } }
        pub fn get_mut<Q: Eq + ?Sized>(&mut self, k: &Q) -> Option<&mut V> where K: Borrow<Q> { match self.pos(k) { Some(i) => Some(&mut self.sl.get_mut(i).1), None => None } }
        pub fn contains_key<Q: Eq + ?Sized>(&self, k: &Q) -> bool where K: Borrow<Q> { self.pos(k).is_some() }
        pub fn insert(&mut self, k: K, v: V) -> Option<V> { match self.pos(&k) { Some(i) => Some(std::mem::replace(&mut self.sl.get_mut(i).1, v)), None => { let i = self.sl.free(); self.sl.put(i, (k, v)); None } } }
        pub fn remove<Q: Eq + ?Sized>(&mut self, k: &Q) -> Option<V> where K: Borrow<Q> { match self.pos(k) { Some(i) => Some(self.sl.take(i).1), None => None } }
        pub fn iter(&self) -> PairIter<'_, K, V> { PairIter(SlotIter { sl: &self.sl, i: 0 }) }
        pub fn keys(&self) -> HKeys<'_, K, V> { HKeys(SlotIter { sl: &self.sl, i: 0 }) }
        pub fn values(&self) -> HValues<'_, K, V> { HValues(SlotIter { sl: &self.sl, i: 0 }) }
        pub fn entry(&mut self, k: K) -> HmEntry<'_, K, V> { let pos = self.pos(&k); HmEntry { map: self, pos, key: k } }
        pub fn clear(&mut self) { let mut i = 0; while i < CAP { if self.sl.occ[i] { let _ = self.sl.take(i); } i += 1; } }
    }
    pub struct HmEntry<'a, K, V> { map: &'a mut HashMap<K, V>, pos: Option<usize>, key: K }
    impl<'a, K: Eq, V> HmEntry<'a, K, V> {
        pub fn or_insert_with<F: FnOnce() -> V>(self, f: F) -> &'a mut V {
            let i = match self.pos { Some(i) => i, None => { let i = self.map.sl.free(); self.map.sl.put(i, (self.key, f())); i } };
            &mut self.map.sl.get_mut(i).1
        }
        pub fn or_insert(self, v: V) -> &'a mut V { self.or_insert_with(|| v) }
        pub fn or_default(self) -> &'a mut V where V: Default { self.or_insert_with(V::default) }
    }
    impl<'a, K: Eq, V> IntoIterator for &'a HashMap<K, V> { type Item = (&'a K, &'a V); type IntoIter = PairIter<'a, K, V>; fn into_iter(self) -> Self::IntoIter { self.iter() } }
    impl<K: Eq, V> FromIterator<(K, V)> for HashMap<K, V> { fn from_iter<I: IntoIterator<Item = (K, V)>>(it: I) -> Self { let mut m = HashMap::new(); for (k, v) in it { m.insert(k, v); } m } }

    // ---------------- HashSet ----------------
    #[derive(Clone, Debug)]
    pub struct HashSet<T> { pub(crate) sl: Slots<T> }
    impl<T> Default for HashSet<T> { fn default() -> Self { HashSet { sl: Slots::new() } } }
    impl<T: Eq> PartialEq for HashSet<T> { fn eq(&self, o: &Self) -> bool { self.len() == o.len() && self.iter().all(|x| o.contains(x)) } }
    impl<T: Eq> Eq for HashSet<T> {}
    impl<T: Eq> HashSet<T> {
        pub fn new() -> Self { HashSet { sl: Slots::new() } }
        pub fn len(&self) -> usize { self.sl.len() }
        pub fn is_empty(&self) -> bool { self.len() == 0 }
        pub fn contains<Q: Eq + ?Sized>(&self, x: &Q) -> bool where T: Borrow<Q> {
            let mut i = 0;
            while i < CAP { if self.sl.occ[i] && self.sl.get(i).borrow() == x { return true; } i += 1; }
            false
        }
        pub fn insert(&mut self, x: T) -> bool {
            if self.contains(&x) { return false; }
            let i = self.sl.free(); self.sl.put(i, x); true
        }
        pub fn remove<Q: Eq + ?Sized>(&mut self, x: &Q) -> bool where T: Borrow<Q> {
            let mut i = 0;
            while i < CAP { if self.sl.occ[i] && self.sl.get(i).borrow() == x { let _ = self.sl.take(i); return true; } i += 1; }
            false
        }
        pub fn iter(&self) -> SlotIter<'_, T> { SlotIter { sl: &self.sl, i: 0 } }
        pub fn union<'a>(&'a self, other: &'a HashSet<T>) -> std::iter::Chain<SlotIter<'a, T>, Difference<'a, T>> { self.iter().chain(Difference { it: other.iter(), not_in: self }) }
    }
    pub struct Difference<'a, T> { it: SlotIter<'a, T>, not_in: &'a HashSet<T> }
    impl<'a, T: Eq> Iterator for Difference<'a, T> {
        type Item = &'a T;
        fn next(&mut self) -> Option<&'a T> { loop { let x = self.it.next()?; if !self.not_in.contains(x) { return Some(x); } } }
    }
    impl<T: Eq> FromIterator<T> for HashSet<T> { fn from_iter<I: IntoIterator<Item = T>>(it: I) -> Self { let mut s = HashSet::new(); for x in it { s.insert(x); } s } }
    impl<'a, T> IntoIterator for &'a HashSet<T> { type Item = &'a T; type IntoIter = SlotIter<'a, T>; fn into_iter(self) -> Self::IntoIter { SlotIter { sl: &self.sl, i: 0 } } }
    impl<T> IntoIterator for HashSet<T> { type Item = T; type IntoIter = SlotIntoIter<T>; fn into_iter(self) -> Self::IntoIter { SlotIntoIter { sl: self.sl, i: 0 } } }
    impl<T> serde::Serialize for HashSet<T> { fn serialize<S: serde::Serializer>(&self, _s: S) -> Result<S::Ok, S::Error> { unreachable!() } }
    impl<'de, T> serde::Deserialize<'de> for HashSet<T> { fn deserialize<D: serde::Deserializer<'de>>(_d: D) -> Result<Self, D::Error> { unreachable!() } }
    pub use std::collections::VecDeque;
}

pub mod sync {
    pub use std::sync::atomic;
    /// Sequential, leak-on-drop model of Arc/Weak (no refcount, never frees).
    pub struct Arc<T> { p: *const T }
    unsafe impl<T: Send + Sync> Send for Arc<T> {}
    unsafe impl<T: Send + Sync> Sync for Arc<T> {}
    impl<T> Arc<T> {
        pub fn new(t: T) -> Self { Arc { p: Box::into_raw(Box::new(t)) } }
        pub fn downgrade(this: &Self) -> Weak<T> { Weak { p: Some(this.p) } }
    }
    impl<T> Clone for Arc<T> { fn clone(&self) -> Self { Arc { p: self.p } } }
    impl<T: Default> Default for Arc<T> { fn default() -> Self { Arc::new(T::default()) } }
    impl<T> Deref for Arc<T> { type Target = T; fn deref(&self) -> &T { unsafe { &*self.p } } }
    pub struct Weak<T> { p: Option<*const T> }
    unsafe impl<T: Send + Sync> Send for Weak<T> {}
    unsafe impl<T: Send + Sync> Sync for Weak<T> {}
    impl<T> Weak<T> {
        pub fn new() -> Self { Weak { p: None } }
        pub fn upgrade(&self) -> Option<Arc<T>> { self.p.map(|p| Arc { p }) }
    }
    use std::cell::UnsafeCell;
    use std::ops::{Deref, DerefMut};
    #[derive(Default)]
    pub struct RwLock<T> { inner: UnsafeCell<T> }
    unsafe impl<T: Send> Send for RwLock<T> {}
    unsafe impl<T: Send + Sync> Sync for RwLock<T> {}
    #[derive(Debug)]
    pub struct Guard<'a, T>(&'a mut T);
    impl<T> Deref for Guard<'_, T> { type Target = T; fn deref(&self) -> &T { self.0 } }
    impl<T> DerefMut for Guard<'_, T> { fn deref_mut(&mut self) -> &mut T { self.0 } }
    impl<T> RwLock<T> {
        pub fn new(t: T) -> Self { RwLock { inner: UnsafeCell::new(t) } }
        pub fn read(&self) -> Result<Guard<'_, T>, ()> { Ok(Guard(unsafe { &mut *self.inner.get() })) }
        pub fn write(&self) -> Result<Guard<'_, T>, ()> { Ok(Guard(unsafe { &mut *self.inner.get() })) }
    }
}

pub mod tracing {
    macro_rules! noop_log { ($($t:tt)*) => { () }; }
    pub(crate) use noop_log as info;
    pub(crate) use noop_log as warn;
    pub(crate) use noop_log as debug;
    pub(crate) use noop_log as error;
}

pub mod zstd {
    /// Environment model of the zstd block codec (C library behind FFI, outside solver reach). Two codecs,
    /// selected per harness and named in its evidence:
    ///  * IdentityOrFail: compress copies the block or reports "does not fit" (nondeterministically);
    ///    decompress copies. Lossless, used for round-trips.
    ///  * Identity / AlwaysFail: the two outcomes of IdentityOrFail as concrete *shapes* (compress always copies /
    ///    always reports "does not fit"): the block kind is then known to the solver front end, which keeps the
    ///    decoder's lengths concrete.
    ///  * AnyLength: compress returns ANY length <= input (bytes arbitrary) or fails; decompress returns
    ///    arbitrary bytes of arbitrary length <= the output buffer, or fails. Over-approximates every real
    ///    codec; used for size bounds and decoder robustness.
    #[derive(Clone, Copy, PartialEq, Eq)]
    pub enum Codec { IdentityOrFail, AnyLength, Identity, AlwaysFail }
    pub static mut CODEC: Codec = Codec::IdentityOrFail;
    pub fn set_codec(c: Codec) { unsafe { CODEC = c; } }
    pub const DECOMP_MAX: usize = 8;
    pub mod bulk {
        use super::{Codec, CODEC};
        fn err() -> std::io::Error { std::io::Error::from(std::io::ErrorKind::Other) }
        pub fn compress_to_buffer(src: &[u8], dst: &mut [u8], _level: i32) -> std::io::Result<usize> {
            let codec = unsafe { CODEC };
            if codec == Codec::AlwaysFail { return Err(err()); }
            if codec != Codec::Identity { let fail: bool = kani::any(); if fail { return Err(err()); } }
            match codec {
                Codec::IdentityOrFail | Codec::Identity | Codec::AlwaysFail => {
                    if dst.len() < src.len() { return Err(err()); }
                    dst[..src.len()].copy_from_slice(src);
                    Ok(src.len())
                }
                Codec::AnyLength => {
                    let n: usize = kani::any();
                    kani::assume(n <= dst.len() && n <= src.len());
                    Ok(n)
                }
            }
        }
        pub fn decompress_to_buffer(src: &[u8], dst: &mut [u8]) -> std::io::Result<usize> {
            match unsafe { CODEC } {
                Codec::IdentityOrFail | Codec::Identity | Codec::AlwaysFail => {
                    if dst.len() < src.len() { return Err(err()); }
                    dst[..src.len()].copy_from_slice(src);
                    Ok(src.len())
                }
                Codec::AnyLength => {
                    let fail: bool = kani::any();
                    if fail { return Err(err()); }
                    let n: usize = kani::any();
                    // bound of the model: a hostile block inflates to at most DECOMP_MAX bytes (larger outputs are outside the claim)
                    kani::assume(n <= dst.len() && n <= super::DECOMP_MAX);
                    Ok(n)
                }
            }
        }
    }
}

pub mod rand {
    pub use ::rand::*;
    /// nondeterministic generator standing in for the OS-seeded thread rng
    pub struct NondetRng;
    impl ::rand::TryRng for NondetRng {
        type Error = std::convert::Infallible;
        fn try_next_u32(&mut self) -> Result<u32, Self::Error> { Ok(kani::any()) }
        fn try_next_u64(&mut self) -> Result<u64, Self::Error> { Ok(kani::any()) }
        fn try_fill_bytes(&mut self, dst: &mut [u8]) -> Result<(), Self::Error> { for b in dst.iter_mut() { *b = kani::any(); } Ok(()) }
    }
    pub fn rng() -> NondetRng { NondetRng }
}

/// Sequential model of tokio::sync::watch (single value cell + version counter).
pub mod watch {
    use super::sync::{Arc, RwLock};
    pub struct Shared<T> { v: RwLock<T>, version: RwLock<u64>, closed: RwLock<bool> }
    pub struct Sender<T> { sh: Arc<Shared<T>> }
    pub struct Receiver<T> { sh: Arc<Shared<T>>, seen: u64 }
    impl<T> Clone for Receiver<T> { fn clone(&self) -> Self { Receiver { sh: self.sh.clone(), seen: self.seen } } }
    pub fn channel<T>(init: T) -> (Sender<T>, Receiver<T>) {
        let sh = Arc::new(Shared { v: RwLock::new(init), version: RwLock::new(0), closed: RwLock::new(false) });
        (Sender { sh: sh.clone() }, Receiver { sh, seen: 0 })
    }
    pub mod error { #[derive(Debug)] pub struct SendError<T>(pub T); #[derive(Debug)] pub struct RecvError; }
    impl<T> Sender<T> {
        pub fn send(&self, t: T) -> Result<(), error::SendError<T>> {
            *self.sh.v.write().unwrap() = t; *self.sh.version.write().unwrap() += 1; Ok(())
        }
    }
    impl<T> Receiver<T> {
        pub fn borrow(&self) -> super::sync::Guard<'_, T> { self.sh.v.read().unwrap() }
        pub fn version(&self) -> u64 { *self.sh.version.read().unwrap() }
        pub async fn wait_for(&mut self, mut f: impl FnMut(&T) -> bool) -> Result<super::sync::Guard<'_, T>, error::RecvError> {
            let g = self.sh.v.read().unwrap();
            if f(&g) { Ok(g) } else { Err(error::RecvError) }
        }
    }
    pub struct WatchStream<T>(pub Receiver<T>);
    impl<T> WatchStream<T> { pub fn new(rx: Receiver<T>) -> Self { WatchStream(rx) } }
}

/// Slot model of lru::LruCache. The real capacity (500) is never reached inside the bound: eviction is outside every claim.
pub mod lru {
    use std::borrow::Borrow;
    use std::num::NonZeroUsize;
    use super::collections::{Slots, CAP};
    pub struct LruCache<K, V> { sl: Slots<(K, V)> }
    impl<K: Eq, V> LruCache<K, V> {
        pub fn new(_cap: NonZeroUsize) -> Self { LruCache { sl: Slots::new() } }
        fn pos<Q: Eq + ?Sized>(&self, k: &Q) -> Option<usize> where K: Borrow<Q> {
            let mut i = 0;
            while i < CAP { if self.sl.occ[i] && self.sl.get(i).0.borrow() == k { return Some(i); } i += 1; }
            None
        }
        pub fn len(&self) -> usize { self.sl.len() }
        pub fn peek<Q: Eq + ?Sized>(&self, k: &Q) -> Option<&V> where K: Borrow<Q> { match self.pos(k) { Some(i) => Some(&self.sl.get(i).1), None => None } }
        pub fn contains<Q: Eq + ?Sized>(&self, k: &Q) -> bool where K: Borrow<Q> { self.pos(k).is_some() }
        pub fn get<Q: Eq + ?Sized>(&mut self, k: &Q) -> Option<&V> where K: Borrow<Q> { match self.pos(k) { Some(i) => Some(&self.sl.get(i).1), None => None } }
        pub fn pop<Q: Eq + ?Sized>(&mut self, k: &Q) -> Option<V> where K: Borrow<Q> { match self.pos(k) { Some(i) => Some(self.sl.take(i).1), None => None } }
        pub fn push(&mut self, k: K, v: V) -> Option<(K, V)> {
            match self.pos(&k) {
                Some(i) => { let old = self.sl.take(i); self.sl.put(i, (k, v)); Some(old) }
                None => { let i = self.sl.free(); self.sl.put(i, (k, v)); None }
            }
        }
        pub fn put(&mut self, k: K, v: V) -> Option<V> { self.push(k, v).map(|e| e.1) }
    }
}

pub mod randmodel {
    /// environment model of rand::seq::SliceRandom::shuffle: any permutation (bubble network of nondeterministic swaps)
    /// Cut switch: harnesses whose cluster state holds a single member set this; the model then
    /// *asserts* that at most one element is shuffled (so the cut cannot hide a path) and returns.
    pub static mut SINGLE_MEMBER: bool = false;
    pub trait SliceRandom { fn shuffle<R: ?Sized>(&mut self, rng: &mut R); }
    impl<T> SliceRandom for [T] {
        fn shuffle<R: ?Sized>(&mut self, _rng: &mut R) {
            let n = self.len();
            if unsafe { SINGLE_MEMBER } { assert!(n <= 1, "single-member shuffle cut reached with more than one element"); return; }
            if n < 2 { return; }
            // selection shuffle: position i receives any of the remaining elements => every permutation
            let mut i = 0;
            while i < super::collections::CAP {
                if i + 1 >= n { break; }
                let j: usize = kani::any();
                kani::assume(j >= i && j < n);
                self.swap(i, j);
                i += 1;
            }
        }
    }
    /// contract model of rand::seq::IteratorRandom: `choose` = any element (None iff empty);
    /// `sample(n)` = any min(n, len) elements at distinct positions, in any order.
    pub trait IteratorRandom: Iterator + Sized {
        fn choose<R: ?Sized>(self, _rng: &mut R) -> Option<Self::Item> {
            use super::collections::{Slots, CAP};
            let mut pool: Slots<Self::Item> = Slots::new();
            let mut total = 0usize;
            for x in self { if total >= CAP { kani::assume(false); } pool.put(total, x); total += 1; }
            if total == 0 { return None; }
            let idx: usize = kani::any();
            kani::assume(idx < total);
            Some(pool.take(idx))
        }
        fn sample<R: ?Sized>(self, _rng: &mut R, amount: usize) -> Vec<Self::Item> {
            use super::collections::{Slots, CAP};
            let mut pool: Slots<Self::Item> = Slots::new();
            let mut total = 0usize;
            for x in self { if total >= CAP { kani::assume(false); } pool.put(total, x); total += 1; }
            let want = if total < amount { total } else { amount };
            // any `want` elements at pairwise distinct positions, in any order; written without Vec::push so that
            // no re-allocation path exists (a push under a symbolic condition makes CBMC explore realloc)
            let mut out: Vec<Self::Item> = Vec::with_capacity(CAP);
            let base = out.as_mut_ptr();
            let mut picked = [usize::MAX; CAP];
            let mut j = 0;
            while j < CAP {
                if j < want {
                    let idx: usize = kani::any();
                    kani::assume(idx < total);
                    let mut k = 0;
                    while k < j { kani::assume(picked[k] != idx); k += 1; }
                    picked[j] = idx;
                    unsafe { base.add(j).write(pool.take(idx)); }
                }
                j += 1;
            }
            unsafe { out.set_len(want); }
            out
        }
    }
    impl<I: Iterator + Sized> IteratorRandom for I {}
    pub mod prelude {
        pub use ::rand::prelude::*;
        pub use super::{IteratorRandom, SliceRandom};
    }
}

/// Model of tokio::time::Instant: (secs, nanos) pair like std's Timespec, so that no 64-bit
/// division is needed. The current instant is the harness-controlled global `NOW`.
pub mod time {
    use std::ops::{Add, Sub};
    use std::time::Duration;
    pub const NANOS_PER_SEC: u32 = 1_000_000_000;
    #[derive(Clone, Copy, Debug, PartialEq, Eq, PartialOrd, Ord, Hash)]
    pub struct Instant { pub secs: u64, pub nanos: u32 }
    pub static mut NOW: Instant = Instant { secs: 0, nanos: 0 };
    pub fn set_now(i: Instant) { unsafe { NOW = i; } }
    impl Instant {
        pub fn now() -> Instant { unsafe { NOW } }
        /// like tokio: saturates to zero when `earlier` is later than self
        pub fn duration_since(&self, earlier: Instant) -> Duration {
            if *self <= earlier { return Duration::new(0, 0); }
            let (secs, nanos) = if self.nanos >= earlier.nanos { (self.secs - earlier.secs, self.nanos - earlier.nanos) }
                else { (self.secs - earlier.secs - 1, self.nanos + NANOS_PER_SEC - earlier.nanos) };
            Duration::new(secs, nanos)
        }
        pub fn saturating_duration_since(&self, earlier: Instant) -> Duration { self.duration_since(earlier) }
        pub fn elapsed(&self) -> Duration { Instant::now().duration_since(*self) }
        pub fn checked_add(&self, d: Duration) -> Option<Instant> {
            let mut secs = self.secs.checked_add(d.as_secs())?;
            let mut nanos = self.nanos + d.subsec_nanos();
            if nanos >= NANOS_PER_SEC { nanos -= NANOS_PER_SEC; secs = secs.checked_add(1)?; }
            Some(Instant { secs, nanos })
        }
    }
    impl Add<Duration> for Instant {
        type Output = Instant;
        fn add(self, d: Duration) -> Instant {
            match self.checked_add(d) {
                Some(i) => i,
                // the real Instant overflows only ~2^63 s from boot: outside every bound used here
                None => { kani::assume(false); unreachable!() }
            }
        }
    }
    impl Sub<Instant> for Instant { type Output = Duration; fn sub(self, o: Instant) -> Duration { self.duration_since(o) } }
}

/// Model of the `anyhow` error-reporting crate: an opaque, message-less error. The real crate boxes
/// the error together with a captured `std::backtrace::Backtrace` behind a vtable; its construction
/// (`format!`) and drop glue dominate symbolic execution and carry no chitchat behaviour. What is kept:
/// which calls return `Err` and how `?`/`context` propagate it. Messages are not built.
pub mod anyhow {
    use std::fmt;
    pub struct Error;
    pub type Result<T, E = Error> = std::result::Result<T, E>;
    impl Error { pub fn msg<M>(_m: M) -> Error { Error } }
    impl fmt::Debug for Error { fn fmt(&self, f: &mut fmt::Formatter<'_>) -> fmt::Result { f.write_str("Error") } }
    impl fmt::Display for Error { fn fmt(&self, f: &mut fmt::Formatter<'_>) -> fmt::Result { f.write_str("error") } }
    impl<E: std::error::Error + Send + Sync + 'static> From<E> for Error { fn from(_e: E) -> Error { Error } }
    pub trait Context<T, E> {
        fn context<C>(self, context: C) -> Result<T, Error>;
        fn with_context<C, F: FnOnce() -> C>(self, f: F) -> Result<T, Error>;
    }
    impl<T, E: std::error::Error + Send + Sync + 'static> Context<T, E> for std::result::Result<T, E> {
        fn context<C>(self, _c: C) -> Result<T, Error> { match self { Ok(t) => Ok(t), Err(_) => Err(Error) } }
        fn with_context<C, F: FnOnce() -> C>(self, _f: F) -> Result<T, Error> { match self { Ok(t) => Ok(t), Err(_) => Err(Error) } }
    }
    impl<T> Context<T, Error> for std::result::Result<T, Error> {
        fn context<C>(self, _c: C) -> Result<T, Error> { self }
        fn with_context<C, F: FnOnce() -> C>(self, _f: F) -> Result<T, Error> { self }
    }
    impl<T> Context<T, std::convert::Infallible> for Option<T> {
        fn context<C>(self, _c: C) -> Result<T, Error> { match self { Some(t) => Ok(t), None => Err(Error) } }
        fn with_context<C, F: FnOnce() -> C>(self, _f: F) -> Result<T, Error> { match self { Some(t) => Ok(t), None => Err(Error) } }
    }
    macro_rules! vanyhow { ($($t:tt)*) => { $crate::vstd::anyhow::Error }; }
    macro_rules! vbail { ($($t:tt)*) => { return ::std::result::Result::Err($crate::vstd::anyhow::Error) }; }
    macro_rules! vensure {
        ($cond:expr $(,)?) => { if !($cond) { return ::std::result::Result::Err($crate::vstd::anyhow::Error); } };
        ($cond:expr, $($t:tt)*) => { if !($cond) { return ::std::result::Result::Err($crate::vstd::anyhow::Error); } };
    }
    pub(crate) use vanyhow as anyhow;
    pub(crate) use vbail as bail;
    pub(crate) use vensure as ensure;
}

/// Model of the one itertools adaptor chitchat uses: `sorted_unstable_by_key` (selection into a new Vec;
/// std's pattern-defeating quicksort with a solver-unknown length is not executable symbolically).
/// Elements with equal keys keep their input order (the real adaptor leaves that order unspecified).
pub mod itertools {
    pub trait Itertools: Iterator + Sized {
        fn sorted_unstable_by_key<K: Ord, F: FnMut(&Self::Item) -> K>(self, mut f: F) -> std::vec::IntoIter<Self::Item> {
            use super::collections::{Slots, CAP};
            let mut pool: Slots<Self::Item> = Slots::new();
            let mut n = 0;
            for x in self {
                if n >= CAP { kani::assume(false); }
                pool.put(n, x);
                n += 1;
            }
            let mut out: Vec<Self::Item> = Vec::with_capacity(CAP);
            let mut round = 0;
            while round < CAP {
                let mut best: Option<usize> = None;
                let mut i = 0;
                while i < CAP {
                    if pool.occ[i] {
                        match best {
                            None => best = Some(i),
                            Some(b) => { if f(pool.get(i)) < f(pool.get(b)) { best = Some(i); } }
                        }
                    }
                    i += 1;
                }
                match best { Some(b) => out.push(pool.take(b)), None => break }
                round += 1;
            }
            out.into_iter()
        }
    }
    impl<I: Iterator + Sized> Itertools for I {}
}
