// Demonstration of F-3 on the unfixed code (append to chitchat/src/delta.rs, run `cargo test -p chitchat --lib f3_demo`):
// a datagram whose op stream is [Node, KeyValue(v=5), SetMaxVersion(3)] decodes fine and then trips
// `assert!(node_delta.max_version >= self.max_version)` (state.rs:236) inside ClusterState::apply_delta.
#[cfg(test)]
mod f3_demo {
    use super::*;
    use crate::state::ClusterState;
    #[test]
    fn set_max_version_below_key_values_is_refused_by_the_decoder() {
        let id = ChitchatId::for_local_test(10_001);
        // encode the three ops exactly as a peer would put them on the wire
        let mut w = CompressedStreamWriter::with_block_threshold(16_384);
        w.append(&DeltaOp::Node { chitchat_id: id.clone(), last_gc_version: 0, from_version_excluded: 0 });
        w.append(&DeltaOp::KeyValue(KeyValueMutation { key: "k".to_string(), value: "v".to_string(), version: 5, status: DeletionStatusMutation::Set }));
        w.append(&DeltaOp::SetMaxVersion { max_version: 3 });
        let bytes = w.finish();
        match Delta::deserialize(&mut &bytes[..]) {
            Err(_) => {} // refused cleanly: fine
            Ok(delta) => {
                let mut cluster_state = ClusterState::default();
                cluster_state.node_state_mut_or_init(&id);
                cluster_state.apply_delta(delta); // must not panic
            }
        }
    }
}
