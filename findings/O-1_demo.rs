// Demonstration of O-1 (append to chitchat/src/lib.rs, run `cargo test -p chitchat --lib syn_ack_budget_demo`).
// Unfixed code: "the SYN-ACK is 65508 bytes on the wire" (up to 65510). Adapted from the demonstration written by the C07 round-2 mutation agent.
/// Demonstration for the "replies fit one UDP datagram" property: a SYN-ACK is made of one
/// message-type byte, the replier's digest and the delta, and those three together must never
/// exceed the 65,507 bytes of a UDP datagram payload, whatever room the digest leaves to the
/// delta (>= 100 bytes).
#[cfg(test)]
mod syn_ack_budget_demo {
    use std::collections::HashSet;
    use std::net::SocketAddr;

    use tokio::sync::watch;

    use super::*;
    use crate::serialize::Serializable;

    // Hard-coded on purpose (not the crate constant).
    const UDP_PAYLOAD_MAX: usize = 65_507;
    // The protocol header that precedes the message type byte (magic number + protocol version).
    const PROTOCOL_HEADER_LEN: usize = 3;

    /// Deterministic near-incompressible 7-bit content.
    fn ascii_noise(len: usize, seed: u64) -> String {
        let mut state = seed.wrapping_mul(0x9E37_79B9_7F4A_7C15) | 1;
        (0..len)
            .map(|_| {
                state ^= state << 13;
                state ^= state >> 7;
                state ^= state << 17;
                char::from(b'!' + ((state >> 32) % 94) as u8)
            })
            .collect()
    }

    fn member(i: usize, node_id_len: usize) -> ChitchatId {
        ChitchatId {
            node_id: ascii_noise(node_id_len, 1_000 + i as u64),
            generation_id: i as u64,
            gossip_advertise_addr: SocketAddr::from(([127, 0, 0, 1], 20_000u16 + i as u16)),
        }
    }

    /// Builds a node that knows 40 members (itself included) with long node ids, so that its own
    /// digest leaves exactly `room` bytes to the delta of a SYN-ACK.
    fn node_with_digest_leaving_room(room: usize) -> Chitchat {
        let config = ChitchatConfig::for_test(10_042);
        let (_seed_addrs_rx, seed_addrs_tx) = watch::channel(Default::default());
        let mut node = Chitchat::with_chitchat_id_and_seeds(config, seed_addrs_tx, Vec::new());

        let mut known_members = Digest::default();
        for i in 0..38 {
            known_members.add_node(member(i, 1_600), Heartbeat(1), 0, 0);
        }
        node.report_heartbeats_in_digest(&known_members);

        // The 40th member is a filler: its node id is sized so that the digest has exactly the
        // length we want.
        let target_digest_len = UDP_PAYLOAD_MAX - 4 - room;
        let digest_len = node.compute_digest(&HashSet::new()).serialized_len();
        let filler_len_without_node_id = member(39, 0).serialized_len() + 24;
        let filler_node_id_len = target_digest_len - digest_len - filler_len_without_node_id;
        let mut filler = Digest::default();
        filler.add_node(member(39, filler_node_id_len), Heartbeat(1), 0, 0);
        node.report_heartbeats_in_digest(&filler);

        assert_eq!(node.node_states().len(), 40);
        assert_eq!(
            node.compute_digest(&HashSet::new()).serialized_len(),
            target_digest_len
        );
        node
    }

    #[test]
    fn test_syn_ack_fits_one_udp_datagram_at_the_budget_boundary() {
        // Small rooms: the delta is a single block that zstd cannot shrink, so the serializer's
        // upper bound is tight and the delta can fill its budget to the byte.
        for room in [100usize, 101, 128, 257, 300] {
            let mut node = node_with_digest_leaving_room(room);
            let cluster_id = node.cluster_id().to_string();
            let mut largest_reply = 0;
            let mut saw_value_sent = false;
            let mut saw_value_dropped = false;
            // Sweep the length of the only stale value one byte at a time across the point
            // where it stops fitting.
            for value_len in 0..=room {
                node.self_node_state()
                    .set("k", ascii_noise(value_len, value_len as u64));
                let syn_ack = node
                    .process_message(ChitchatMessage::Syn {
                        cluster_id: cluster_id.clone(),
                        digest: Digest::default(),
                    })
                    .unwrap();
                let wire_len = syn_ack.serialize_to_vec().len();
                assert_eq!(wire_len, syn_ack.serialized_len());
                let ChitchatMessage::SynAck { digest, delta } = syn_ack else {
                    panic!("expected a SYN-ACK");
                };

                // message type byte + digest + delta
                let reply_len = 1 + digest.serialized_len() + delta.serialized_len();
                assert_eq!(reply_len, wire_len - PROTOCOL_HEADER_LEN);
                assert!(
                    wire_len <= UDP_PAYLOAD_MAX,
                    "room={room} value_len={value_len}: the SYN-ACK is {wire_len} bytes on the wire, more than a UDP datagram can carry ({UDP_PAYLOAD_MAX})"
                );
                assert!(
                    reply_len <= UDP_PAYLOAD_MAX,
                    "room={room} value_len={value_len}: SYN-ACK (type byte + digest + delta) is \
                     {reply_len} bytes (digest {} + delta {}), more than a UDP datagram can carry \
                     ({UDP_PAYLOAD_MAX})",
                    digest.serialized_len(),
                    delta.serialized_len(),
                );
                largest_reply = largest_reply.max(reply_len);
                let num_kvs: usize = delta
                    .node_deltas
                    .iter()
                    .map(|node_delta| node_delta.key_values.len())
                    .sum();
                if num_kvs == 1 {
                    saw_value_sent = true;
                } else {
                    saw_value_dropped = true;
                }
            }
            // The sweep really crossed the boundary, and the budget can be filled to the byte.
            assert!(saw_value_sent && saw_value_dropped);
            assert!(largest_reply <= UDP_PAYLOAD_MAX);
        }
    }
}
