// Demonstration of F-2 on the unfixed code (append to chitchat/src/listener.rs, run `cargo test -p chitchat --lib f2_demo`):
// panics at listener.rs:110 "byte index 1 is not a char boundary; it is inside 'é' (bytes 0..2) of `é`".
#[cfg(test)]
mod f2_demo {
    #[test]
    fn set_non_ascii_key_without_any_listener() {
        let mut ns = crate::NodeState::for_test();
        ns.set("é", "v");
        assert_eq!(ns.get("é"), Some("v"));
    }
}
