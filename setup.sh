#!/bin/bash
# Offline set-up: checks the tool chain and warms the Kani dependency build of the chitchat crate
# (tokio, zstd-sys, ... compiled once into /verif/.cache/kani-target; later runs only rebuild chitchat itself).
set -e
cd "$(dirname "$0")"
export CARGO_NET_OFFLINE=true
for t in cargo-kani cbmc goto-cc goto-instrument python3; do command -v $t >/dev/null || { echo "missing tool: $t"; exit 1; }; done
mkdir -p .cache .work evidence replays
# native differential validation of the environment models against std / lru / itertools (trusted-base check, not a deciding step)
cp /repo/Cargo.lock native/modelcheck/Cargo.lock
( cd native/modelcheck && RUSTUP_TOOLCHAIN=1.88.0 CARGO_TARGET_DIR="$PWD/../../.cache/native-target" MODELCHECK_ROUNDS=${MODELCHECK_ROUNDS:-20000} cargo test --offline 2>&1 | grep -E "^test |test result|^error" ; exit ${PIPESTATUS[0]} ) || { echo "model validation failed"; exit 1; }
python3 - <<'PY'
import sys, os, shutil
sys.path.insert(0, os.getcwd())
from vlib import scratch, kani
work = os.path.join(os.getcwd(), ".work", "setup")
gens = {"state": "h_plain!(setup_smoke, 4, c14_scalar());\n"}
crate = scratch.make_scratch(work, gens=gens, cap=3)
bins = kani.codegen(crate, ["state::verif_state::setup_smoke"], work)
hb = bins["state::verif_state::setup_smoke"]
kani.instrument(hb)
r = kani.run_cbmc(hb, unwind=4, loop_rules=[(r"^memcmp", None, 6)], timeout=600, mem_gb=6)
print("setup smoke query:", r.status, "checks", r.checks_total, "wall %.1fs" % r.wall_s)
shutil.rmtree(work, ignore_errors=True)
sys.exit(0 if r.status == "success" else 1)
PY
