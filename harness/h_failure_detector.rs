// Harnesses over chitchat/src/failure_detector.rs: real SamplingWindow / BoundedArrayStats / FailureDetector
// with the clock as a solver variable (vstd::time::NOW). Float arithmetic is CBMC's IEEE-754 encoding.
use std::time::Duration;

const MARGIN: f64 = 1.0 + 1.0 / 1073741824.0; // 1 + 2^-30: keeps last-ulp rounding from deciding a property stated over reals

fn fid() -> ChitchatId { ChitchatId::new("x".to_string(), 0, ([127, 0, 0, 1], 1).into()) }

/// durations on a whole-second grid (the sub-second part would add a float division per conversion;
/// the properties are scale-free) up to `max_s` seconds
fn any_s(max_s: u64) -> Duration { let sec: u64 = kani::any(); kani::assume(sec <= max_s); Duration::from_secs(sec) }
fn any_ms(max_ms: u64) -> Duration { any_s(max_ms / 1000) }

/// Concrete configurations (shape parameter `cfg_id`): symbolic x symbolic double multiplication/division is
/// where bit-blasting stalls, so the configuration is enumerated and the heartbeat history stays symbolic.
fn fixed_config(cfg_id: u8, window: usize) -> FailureDetectorConfig {
    let (thr, maxi, init) = match cfg_id { 0 => (8.0, 10, 5), 1 => (0.5, 1, 1), 2 => (16.0, 100, 1000), 3 => (2.0, 1000, 10), _ => (4.0, 3, 7) };
    FailureDetectorConfig { phi_threshold: thr, sampling_window_size: window, max_interval: Duration::from_secs(maxi), initial_interval: Duration::from_secs(init), dead_node_grace_period: Duration::from_secs(3600) }
}
fn any_config(window: usize) -> FailureDetectorConfig {
    let phi_threshold: f64 = kani::any();
    kani::assume(phi_threshold >= 0.5 && phi_threshold <= 16.0);
    let max_interval = any_ms(100_000);
    let initial_interval = any_ms(100_000);
    kani::assume(max_interval.as_secs() >= 1 && initial_interval.as_secs() >= 1);
    FailureDetectorConfig { phi_threshold, sampling_window_size: window, max_interval, initial_interval, dead_node_grace_period: Duration::from_secs(3600) }
}
fn advance(d: Duration) { let now = vtime::Instant::now() + d; vtime::set_now(now); }
fn fmax(a: f64, b: f64) -> f64 { if a > b { a } else { b } }
fn fmin(a: f64, b: f64) -> f64 { if a < b { a } else { b } }

/// C10 (i): exact short histories through the real SamplingWindow::report_heartbeat / BoundedArrayStats::append,
/// ring capacity `window`, `arrivals` heartbeats with arbitrary gaps (also beyond max_interval => dropped), then silence.
fn c10_history(cfg_id: u8, window: usize, arrivals: usize) {
    let cfg = if cfg_id == 255 { any_config(window) } else { fixed_config(cfg_id, window) };
    let (thr, maxi, init) = (cfg.phi_threshold, cfg.max_interval.as_secs_f64(), cfg.initial_interval.as_secs_f64());
    let mut w = SamplingWindow::new(window, cfg.max_interval, cfg.initial_interval);
    vtime::set_now(vtime::Instant { secs: 1_000, nanos: 0 });
    let mut dropped = 0;
    let mut kept = 0;
    // reference ring of the retained (usable) intervals, whole seconds => every float operation on them is exact
    let mut ring = [0u64; 4];
    let mut i = 0;
    while i < arrivals {
        if i > 0 {
            let gap = any_s(3 * cfg.max_interval.as_secs());
            if gap > cfg.max_interval { dropped += 1; } else { ring[kept % window] = gap.as_secs(); kept += 1; }
            advance(gap);
        }
        w.report_heartbeat();
        i += 1;
    }
    let mut expect_sum = 0u64;
    let mut j = 0;
    while j < window { if j < kept { expect_sum += ring[j]; } j += 1; }
    assert!(w.intervals.sum() == expect_sum as f64, "C10/C11: the windowed sum is not the sum of the retained intervals (an evicted or dropped interval still counts, or a retained one is missing)");
    let silence = any_s(40 * cfg.max_interval.as_secs() + 40 * cfg.initial_interval.as_secs());
    advance(silence);
    let usable = w.intervals.len();
    assert!(usable == if kept < window { kept } else { window }, "C10: window length differs from the number of usable intervals (capped at the window size)");
    let phi = w.phi();
    kani::cover!(dropped > 0 && usable > 0, "an over-long interval was dropped, others kept");
    kani::cover!(kept > window, "ring wrapped around");
    kani::cover!(phi.is_some() && phi.unwrap() <= thr, "alive verdict reachable");
    if usable == 0 { assert!(phi.is_none(), "C10/C11: phi defined with fewer than two usable heartbeat observations"); }
    else {
        assert!(phi.is_some(), "C10: phi undefined although intervals were observed");
        if silence.as_secs_f64() > thr * fmax(maxi, init) * MARGIN {
            assert!(!(phi.unwrap() <= thr), "C10: silent for longer than phi_threshold x max(max_interval, initial_interval) but phi is still within the threshold");
        }
    }
    std::mem::forget(w);
}

/// C10/C11 (added after seed C11c): the same exact-sum oracle OFF the whole-second grid. Every gap is a symbolic number of
/// whole seconds plus a concrete half second, so the sub-second part of every retained interval must reach the window
/// (`as_secs_f64`, not a truncated or rounded value); halves are exact in f64, so the comparison is exact.
fn c10_history_half(cfg_id: u8, window: usize, arrivals: usize) {
    let cfg = fixed_config(cfg_id, window);
    let mut w = SamplingWindow::new(window, cfg.max_interval, cfg.initial_interval);
    vtime::set_now(vtime::Instant { secs: 1_000, nanos: 0 });
    let mut kept = 0;
    let mut ring = [0u64; 4]; // retained intervals in half seconds
    let mut i = 0;
    while i < arrivals {
        if i > 0 {
            let gap = any_s(2 * cfg.max_interval.as_secs()) + Duration::from_millis(500);
            if gap > cfg.max_interval { } else { ring[kept % window] = 2 * gap.as_secs() + 1; kept += 1; }
            advance(gap);
        }
        w.report_heartbeat();
        i += 1;
    }
    let mut expect_halves = 0u64;
    let mut j = 0;
    while j < window { if j < kept { expect_halves += ring[j]; } j += 1; }
    kani::cover!(kept >= 1, "a sub-second-carrying interval was retained");
    assert!(w.intervals.sum() * 2.0 == expect_halves as f64, "C10/C11: the windowed sum is not the sum of the retained intervals (sub-second part of an interval lost, or an evicted / dropped interval still counts)");
    assert!(w.intervals.len() == if kept < window { kept } else { window }, "C10: window length differs from the number of usable intervals (capped at the window size)");
    std::mem::forget(w);
}

/// Classification glue of FailureDetector::update_node_liveness over an arbitrary window: alive iff phi <= threshold,
/// exactly one of live/dead afterwards, death instant kept, window cleared while dead, unknown member => dead.
fn fd_classify(cfg_id: u8) {
    let cfg = fixed_config(cfg_id, 4);
    let thr = cfg.phi_threshold;
    let mut fd = FailureDetector::new(cfg.clone());
    let id = fid();
    let has_window: bool = kani::any();
    let was_live: bool = kani::any();
    let was_dead: bool = kani::any();
    kani::assume(!(was_live && was_dead));
    let old_death = vtime::Instant { secs: 500, nanos: 0 };
    if was_live { fd.live_nodes.insert(id.clone()); }
    if was_dead { fd.dead_nodes.insert(id.clone(), old_death); }
    let mut expect_phi: Option<f64> = None;
    vtime::set_now(vtime::Instant { secs: 1_000, nanos: 0 });
    if has_window {
        let mut w = SamplingWindow::new(4, cfg.max_interval, cfg.initial_interval);
        let len: usize = kani::any();
        kani::assume(len <= 4);
        w.intervals.is_filled = len == 4;
        w.intervals.index = if len == 4 { 0 } else { len };
        let sum: f64 = kani::any();
        kani::assume(sum >= 0.0 && sum <= (len as f64) * cfg.max_interval.as_secs_f64());
        w.intervals.sum = sum;
        let has_last: bool = kani::any();
        if has_last { w.last_heartbeat = Some(vtime::Instant { secs: 1_000 - (kani::any::<u8>() as u64), nanos: 0 }); }
        expect_phi = w.phi();
        fd.node_samples.insert(id.clone(), w);
    }
    fd.update_node_liveness(&id);
    let live = fd.live_nodes.contains(&id);
    let dead = fd.dead_nodes.contains_key(&id);
    let alive_expected = match expect_phi { Some(p) => p <= thr, None => false };
    kani::cover!(live, "classified live");
    kani::cover!(dead && has_window, "classified dead with a window");
    assert!(live != dead, "C12: member must be in exactly one of live / dead after an evaluation");
    assert!(live == alive_expected, "C10/C11/C12: classification differs from phi <= phi_threshold (undefined phi => dead)");
    if dead && was_dead { assert!(*fd.dead_nodes.get(&id).unwrap() == old_death, "C12: time of death overwritten while continuously dead"); }
    if dead && !was_dead { assert!(*fd.dead_nodes.get(&id).unwrap() == vtime::Instant::now(), "C12: time of death is not the evaluation instant"); }
    if dead && has_window { assert!(fd.node_samples.get(&id).unwrap().intervals.len() == 0, "C10/C11: sampling window not cleared while dead"); }
    std::mem::forget(fd);
}

/// C10 (ii) / C11: arbitrary window contents (long histories in the abstract): len 1..=cap, sum anywhere in
/// [len*lo, len*hi] with hi <= max_interval, any last heartbeat instant.
fn window_abstract(cfg_id: u8, cap: usize, completeness: bool) {
    let cfg = if cfg_id == 255 { any_config(cap) } else { fixed_config(cfg_id, cap) };
    let (thr, maxi, init) = (cfg.phi_threshold, cfg.max_interval.as_secs_f64(), cfg.initial_interval.as_secs_f64());
    let mut w = SamplingWindow::new(cap, cfg.max_interval, cfg.initial_interval);
    let len: usize = kani::any();
    kani::assume(len >= 1 && len <= cap);
    let filled = len == cap;
    w.intervals.is_filled = filled;
    w.intervals.index = if filled { 0 } else { len };
    let lo: f64 = kani::any(); let hi: f64 = kani::any();
    kani::assume(lo >= 0.0 && lo <= hi && hi <= maxi);
    let sum: f64 = kani::any();
    kani::assume(sum >= (len as f64) * lo && sum <= (len as f64) * hi);
    w.intervals.sum = sum;
    let last = vtime::Instant { secs: 1_000, nanos: 0 };
    w.last_heartbeat = Some(last);
    let elapsed = any_ms(4_000_000);
    vtime::set_now(last + elapsed);
    let phi = w.phi();
    assert!(phi.is_some(), "C10: phi undefined although intervals were observed");
    let phi = phi.unwrap();
    let e = elapsed.as_secs_f64();
    if completeness {
        if e > thr * fmax(maxi, init) * MARGIN { assert!(!(phi <= thr), "C10: phi stays at or below the threshold after a silence longer than phi_threshold x max(max_interval, initial_interval)"); }
        kani::cover!(phi <= thr, "alive verdict reachable");
    } else {
        // accuracy: heartbeats every [lo, hi], evaluated at most hi after the last one
        let floor = fmin(lo, init);
        if lo > 0.0 && e <= hi && thr >= (hi / floor) * MARGIN { assert!(phi <= thr, "C11: steadily heartbeating member flagged although phi_threshold >= b / min(a, initial_interval)"); }
        kani::cover!(!(phi <= thr), "dead verdict reachable");
    }
    std::mem::forget(w);
}

/// C11: exact short steady histories: `arrivals` fresh heartbeats with gaps in [a, b], b <= max_interval.
fn c11_steady(cfg_id: u8, window: usize, arrivals: usize) {
    let cfg = if cfg_id == 255 { any_config(window) } else { fixed_config(cfg_id, window) };
    let (thr, init) = (cfg.phi_threshold, cfg.initial_interval.as_secs_f64());
    let a = any_s(cfg.max_interval.as_secs()); let b = any_s(cfg.max_interval.as_secs());
    kani::assume(a.as_secs() >= 1 && a <= b && b <= cfg.max_interval);
    let mut w = SamplingWindow::new(window, cfg.max_interval, cfg.initial_interval);
    vtime::set_now(vtime::Instant { secs: 1_000, nanos: 0 });
    let mut i = 0;
    while i < arrivals {
        if i > 0 { let gap = any_s(cfg.max_interval.as_secs()); kani::assume(gap >= a && gap <= b); advance(gap); }
        w.report_heartbeat();
        i += 1;
    }
    let wait = any_s(cfg.max_interval.as_secs());
    kani::assume(wait <= b);
    advance(wait);
    let phi = w.phi();
    if arrivals >= 2 {
        assert!(phi.is_some(), "C11: phi undefined after two fresh heartbeats");
        if thr >= (b.as_secs_f64() / fmin(a.as_secs_f64(), init)) * MARGIN { assert!(phi.unwrap() <= thr, "C11: steadily heartbeating member flagged although phi_threshold >= b / min(a, initial_interval)"); }
        kani::cover!(!(phi.unwrap() <= thr), "dead verdict reachable");
    } else { assert!(phi.is_none(), "C11: phi defined before two heartbeats were observed"); }
    std::mem::forget(w);
}

/// C11 (round 4b): steady heartbeats off the whole-second grid: a, b, every gap and the final wait carry a concrete half second
/// (so sub-second gossip intervals such as 0.5 s are inside the bound).
fn c11_steady_half(cfg_id: u8, window: usize, arrivals: usize) {
    let cfg = fixed_config(cfg_id, window);
    let (thr, init) = (cfg.phi_threshold, cfg.initial_interval.as_secs_f64());
    let h = Duration::from_millis(500);
    let a = any_s(cfg.max_interval.as_secs()) + h; let b = any_s(cfg.max_interval.as_secs()) + h;
    kani::assume(a <= b && b <= cfg.max_interval);
    let mut w = SamplingWindow::new(window, cfg.max_interval, cfg.initial_interval);
    vtime::set_now(vtime::Instant { secs: 1_000, nanos: 0 });
    let mut i = 0;
    while i < arrivals {
        if i > 0 { let gap = any_s(cfg.max_interval.as_secs()) + h; kani::assume(gap >= a && gap <= b); advance(gap); }
        w.report_heartbeat();
        i += 1;
    }
    let wait = any_s(cfg.max_interval.as_secs()) + h;
    kani::assume(wait <= b);
    advance(wait);
    let phi = w.phi();
    assert!(phi.is_some(), "C11: phi undefined after two fresh heartbeats");
    kani::cover!(a.as_secs() == 0, "sub-second steady interval");
    if thr >= (b.as_secs_f64() / fmin(a.as_secs_f64(), init)) * MARGIN { assert!(phi.unwrap() <= thr, "C11: steadily heartbeating member flagged although phi_threshold >= b / min(a, initial_interval)"); }
    std::mem::forget(w);
}

/// C12 building block: scheduled_for_deletion = dead for more than half the grace period; garbage_collect at the full period
fn fd_schedule_gc(grace_s: u64) {
    let mut cfg = FailureDetectorConfig::default();
    let grace = Duration::from_secs(grace_s);
    cfg.dead_node_grace_period = grace;
    let mut fd = FailureDetector::new(cfg);
    let id = fid();
    let death = vtime::Instant { secs: 1_000, nanos: 0 };
    fd.dead_nodes.insert(id.clone(), death);
    fd.node_samples.insert(id.clone(), SamplingWindow::new(2, Duration::from_secs(1), Duration::from_secs(1)));
    let since = any_duration(4 * grace_s);
    vtime::set_now(death + since);
    let scheduled = fd.scheduled_for_deletion_nodes().count() == 1;
    // the code halves the period in f32 (24-bit mantissa): allow that rounding around the boundary
    let half = Duration::from_millis(grace_s * 500);
    let slack = Duration::from_millis(grace_s / 1_000 + 1);
    kani::cover!(scheduled, "scheduled for deletion");
    kani::cover!(!scheduled, "not yet scheduled");
    if since > half + slack { assert!(scheduled, "C12: dead for more than half the grace period but not scheduled for deletion"); }
    if since + slack < half { assert!(!scheduled, "C12: scheduled for deletion before half the grace period"); }
    let gced = fd.garbage_collect();
    if since >= grace { assert!(gced.len() == 1 && !fd.dead_nodes.contains_key(&id) && !fd.node_samples.contains_key(&id), "C12: dead for the full grace period but not removed"); }
    else { assert!(gced.is_empty() && fd.dead_nodes.contains_key(&id), "C12: removed before the grace period elapsed"); }
    std::mem::forget(fd); std::mem::forget(gced);
}

macro_rules! h_fd { ($name:ident, $unw:expr, $body:expr) => {
    #[kani::proof]
    #[kani::unwind($unw)]
    fn $name() { $body }
}}

// accessors for harnesses in other modules (FailureDetector's fields are private to this file)
pub(crate) fn fd_is_live(fd: &FailureDetector, id: &ChitchatId) -> bool { fd.live_nodes.contains(id) }
pub(crate) fn fd_is_dead(fd: &FailureDetector, id: &ChitchatId) -> bool { fd.dead_nodes.contains_key(id) }
pub(crate) fn fd_set_live(fd: &mut FailureDetector, id: &ChitchatId) { fd.live_nodes.insert(id.clone()); }
pub(crate) fn fd_set_dead(fd: &mut FailureDetector, id: &ChitchatId, t: vtime::Instant) { fd.dead_nodes.insert(id.clone(), t); }
pub(crate) fn fd_has_window(fd: &FailureDetector, id: &ChitchatId) -> bool { fd.node_samples.contains_key(id) }
pub(crate) fn fd_window_fed(fd: &FailureDetector, id: &ChitchatId) -> bool { fd.node_samples.get(id).map(|w| w.last_heartbeat.is_some()).unwrap_or(false) }
pub(crate) fn fd_sizes(fd: &FailureDetector) -> (usize, usize, usize) { (fd.node_samples.len(), fd.live_nodes.len(), fd.dead_nodes.len()) }
/// window yielding phi = 0 at `now` (alive) or no phi at all (dead): the float kernel is C10/C11's subject
pub(crate) fn fd_put_window(fd: &mut FailureDetector, id: &ChitchatId, alive_at: Option<vtime::Instant>) {
    let mut w = SamplingWindow::new(2, Duration::from_secs(10), Duration::from_secs(5));
    if let Some(t) = alive_at { w.intervals.append(1.0); w.last_heartbeat = Some(t); }
    fd.node_samples.insert(id.clone(), w);
}
