// Shared by every `verif_<module>` child module (included textually).
use crate::vstd::time as vtime;

/// Cut: listener dispatch is C15's subject; everywhere else it is a no-op.
pub(crate) fn noop_trigger(_l: &mut crate::listener::Listeners, _e: crate::KeyChangeEvent) {}
/// Cut: anyhow errors capture a std Backtrace whose drop glue dominates symbolic execution.
pub(crate) fn no_bt() -> std::backtrace::Backtrace { std::backtrace::Backtrace::disabled() }

pub(crate) fn any_instant(max_secs: u64) -> vtime::Instant {
    let secs: u64 = kani::any();
    let nanos: u32 = kani::any();
    kani::assume(secs <= max_secs);
    kani::assume(nanos < vtime::NANOS_PER_SEC);
    vtime::Instant { secs, nanos }
}
pub(crate) fn any_duration(max_secs: u64) -> std::time::Duration {
    let secs: u64 = kani::any();
    let nanos: u32 = kani::any();
    kani::assume(secs <= max_secs);
    kani::assume(nanos < vtime::NANOS_PER_SEC);
    std::time::Duration::new(secs, nanos)
}
