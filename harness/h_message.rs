// Harnesses over chitchat/src/message.rs + digest.rs: framing round-trip for the message kinds that carry no
// block-compressed stream (Syn, BadCluster). SynAck/Ack embed a delta whose decoder does not fit (DESIGN.md).
use crate::digest::NodeDigest;
use crate::{ChitchatId, Heartbeat};

fn mid(b: u8, v6: bool) -> ChitchatId {
    let mut s = String::with_capacity(1); s.push(b as char);
    let addr: std::net::SocketAddr = if v6 { std::net::SocketAddr::new(std::net::IpAddr::V6(std::net::Ipv6Addr::from(kani::any::<[u8; 16]>())), kani::any()) }
               else { std::net::SocketAddr::new(std::net::IpAddr::V4(std::net::Ipv4Addr::from(kani::any::<[u8; 4]>())), kani::any()) };
    ChitchatId::new(s, kani::any(), addr)
}
fn msg_syn_roundtrip(members: usize, v6: bool, cluster_len: usize) {
    let mut digest = Digest::default();
    let ids = [mid(b'x', v6), mid(b'y', false)];
    let nds = [NodeDigest { heartbeat: Heartbeat(kani::any()), last_gc_version: kani::any(), max_version: kani::any() },
               NodeDigest { heartbeat: Heartbeat(kani::any()), last_gc_version: kani::any(), max_version: kani::any() }];
    let mut i = 0;
    while i < members { digest.node_digests.insert(ids[i].clone(), nds[i]); i += 1; }
    let mut cluster_id = String::with_capacity(2);
    let mut i = 0;
    while i < cluster_len { let b: u8 = kani::any(); kani::assume(b < 128); cluster_id.push(b as char); i += 1; }
    let expect_cluster = cluster_id.clone();
    let msg = ChitchatMessage::Syn { cluster_id, digest };
    let announced = msg.serialized_len();
    let mut buf: Vec<u8> = Vec::with_capacity(128);
    msg.serialize(&mut buf);
    assert!(buf.len() == announced, "C08: announced length differs from the number of bytes written");
    assert!(buf[0] == 0x53 && buf[1] == 0xb0 && buf[2] == 0 && buf[3] == 0, "C08: magic number / protocol version / message tag differ from the documented layout");
    let mut cur: &[u8] = &buf[..];
    let back = ChitchatMessage::deserialize(&mut cur);
    assert!(back.is_ok(), "C08: an emitted message does not decode");
    assert!(cur.is_empty(), "C08: decoding did not consume exactly all bytes");
    match back.unwrap() {
        ChitchatMessage::Syn { cluster_id, digest } => {
            assert!(cluster_id == expect_cluster, "C08: cluster id changed in the round-trip");
            assert!(digest.node_digests.len() == members, "C08: digest member count changed in the round-trip");
            let mut i = 0;
            while i < members {
                let nd = digest.node_digests.get(&ids[i]);
                assert!(nd.is_some() && *nd.unwrap() == nds[i], "C08: digest entry changed in the round-trip");
                i += 1;
            }
            std::mem::forget(digest);
        }
        _ => assert!(false, "C08: message kind changed in the round-trip"),
    }
    std::mem::forget(buf); std::mem::forget(msg);
}
fn msg_badcluster_roundtrip() {
    let msg = ChitchatMessage::BadCluster;
    let mut buf: Vec<u8> = Vec::with_capacity(8);
    msg.serialize(&mut buf);
    assert!(buf.len() == msg.serialized_len() && buf.len() == 4 && buf[3] == 3, "C08: BadCluster framing differs from the documented layout");
    let mut cur: &[u8] = &buf[..];
    let back = ChitchatMessage::deserialize(&mut cur);
    assert!(matches!(back, Ok(ChitchatMessage::BadCluster)) && cur.is_empty(), "C08: BadCluster does not round-trip");
    std::mem::forget(buf);
}
/// C09(i), framing only: an arbitrary 4..=8-byte buffer is decoded or refused, never a panic (tag 0 = Syn needs a digest count)
fn msg_hostile_header<const N: usize>() {
    let buf: [u8; N] = kani::any();
    let len: usize = kani::any();
    kani::assume(len <= N);
    // keep the digest count at 0 so that the (unbounded) member loop is not entered: counts > 0 are outside this query
    if len >= 6 { kani::assume(buf[3] != 0 || (buf[4] == 0 && buf[5] == 0)); }
    kani::assume(len < 4 || buf[3] == 0 || buf[3] == 3 || buf[3] > 3);   // tags 1, 2 (SynAck/Ack) lead into the stream decoder: outside this query
    let mut cur: &[u8] = &buf[..len];
    let r = ChitchatMessage::deserialize(&mut cur);
    kani::cover!(r.is_ok(), "some header decodes");
    kani::cover!(r.is_err(), "some header is refused");
    std::mem::forget(r);
}

macro_rules! h_msg { ($name:ident, $unw:expr, $body:expr) => {
    #[kani::proof]
    #[kani::unwind($unw)]
    fn $name() { $body }
}}
