// Harnesses over chitchat/src/state.rs (child module: private items are reachable).
use crate::types::KeyValueMutation;

/// one-byte node id: id comparisons are memcmp loops unwound at every map lookup
fn xid() -> ChitchatId { ChitchatId::new("x".to_string(), 0, ([127, 0, 0, 1], 1).into()) }
fn empty_state() -> NodeState { NodeState::new(xid(), Listeners::default()) }

fn bare_state(gc: u64, max: u64) -> NodeState {
    let mut ns = empty_state();
    ns.max_version = max;
    ns.last_gc_version = gc;
    ns
}

#[kani::proof]
#[kani::unwind(2)]
fn smoke_check_delta_status() {
    let r = bare_state(kani::any(), kani::any());
    let nd = NodeDelta {
        chitchat_id: r.chitchat_id.clone(),
        from_version_excluded: kani::any(),
        last_gc_version: kani::any(),
        key_values: Vec::new(),
        max_version: kani::any(),
    };
    let st = r.check_delta_status(&nd);
    if st == DeltaStatus::Apply { assert!(nd.max_version > r.max_version); }
    kani::cover!(st == DeltaStatus::ApplyAfterReset, "reset reachable");
    std::mem::forget(r); std::mem::forget(nd);
}

// ---- T-cut stubs for the byte-level stream writer (truncation model: any op may be the first refused)
/// ops accepted before the first refusal; harness-set, concrete => the truncation point is a *shape*, not a solver choice
static mut CUT_AFTER: usize = usize::MAX;
static mut OPS_SEEN: usize = 0;
fn stub_upper<S: crate::serialize::Serializable + ?Sized>(_w: &crate::serialize::CompressedStreamWriter, _item: &S) -> usize {
    unsafe { OPS_SEEN += 1; if OPS_SEEN > CUT_AFTER { usize::MAX } else { 0 } }
}
fn stub_append<S: crate::serialize::Serializable + ?Sized>(_w: &mut crate::serialize::CompressedStreamWriter, _item: &S) {}
fn stub_finish(w: crate::serialize::CompressedStreamWriter) -> Vec<u8> { std::mem::forget(w); Vec::new() }

const KEYS: [&str; 3] = ["a", "b", "c"];

fn any_status(now: Instant) -> DeletionStatus {
    let c: u8 = kani::any();
    kani::assume(c < 3);
    DeletionStatusMutation::try_from(c).unwrap().into_status(now)
}

/// NodeState over keys KEYS with concrete presence mask; versions 1..=vmax distinct, statuses symbolic,
/// max_version >= every version, watermark arbitrary in 0..=vmax (also above max_version).
fn shaped_state(mask: u8, vmax: u64) -> NodeState {
    let mut ns = empty_state();
    let now = Instant { secs: 0, nanos: 0 };
    let mut maxv = 0u64;
    let mut seen = [0u64; 3];
    for i in 0..3 {
        if mask & (1 << i) != 0 {
            let version: u64 = kani::any();
            kani::assume(version >= 1 && version <= vmax);
            for j in 0..i { kani::assume(seen[j] != version); }
            seen[i] = version;
            let st = any_status(now);
            if version > maxv { maxv = version; }
            ns.key_values.insert(KEYS[i].to_string(), VersionedValue { value: String::new(), version, status: st });
        }
    }
    let mv: u64 = kani::any(); kani::assume(mv <= vmax && mv >= maxv); ns.max_version = mv;
    let gc: u64 = kani::any(); kani::assume(gc <= vmax); ns.last_gc_version = gc;
    ns
}

fn sender_delta(sender_copy: NodeState, recv: &NodeState) -> Delta {
    let id = sender_copy.chitchat_id.clone();
    let (tx, rx) = watch::channel(HashSet::default());
    std::mem::forget(tx);
    let mut cs = ClusterState::with_seed_addrs(rx);
    cs.node_states.insert(id.clone(), sender_copy);
    let mut digest = Digest::default();
    digest.node_digests.insert(id, recv.digest());
    let sched: HashSet<&ChitchatId> = HashSet::default();
    let delta = cs.compute_partial_delta_respecting_mtu(&digest, 65_000, &sched);
    std::mem::forget(cs); std::mem::forget(digest); std::mem::forget(sched);
    delta
}

fn run_pair_probe(smask: u8, rmask: u8, vmax: u64) {
    unsafe { crate::vstd::randmodel::SINGLE_MEMBER = true; }
    let s = shaped_state(smask, vmax);
    let mut r = shaped_state(rmask, vmax);
    let (s_gc, s_max) = (s.last_gc_version, s.max_version);
    let (r_gc, r_max) = (r.last_gc_version, r.max_version);
    let mut delta = sender_delta(s, &r);
    assert!(delta.node_deltas.len() <= 1);
    if delta.node_deltas.len() == 1 { assert!(s_max > r_max); }
    if let Some(nd) = delta.node_deltas.pop() {
        let expect_reset = r_gc < s_gc && r_max < s_gc;
        let truncated_after_header = nd.key_values.is_empty() && nd.max_version == 0;
        let before = r.monotonic_property();
        let st = r.apply_delta(nd, Instant { secs: 0, nanos: 0 });
        if !truncated_after_header {
            assert!(st != DeltaStatus::Reject);
            assert!(r.monotonic_property() > before);
        }
        assert!((st == DeltaStatus::ApplyAfterReset) == expect_reset || (truncated_after_header && !expect_reset));
        kani::cover!(st == DeltaStatus::ApplyAfterReset, "reset");
        kani::cover!(st == DeltaStatus::Apply, "apply");
    }
    std::mem::forget(delta);
    std::mem::forget(r);
}

#[kani::proof]
#[kani::unwind(5)]
#[kani::stub(crate::listener::Listeners::trigger_event, noop_trigger)]
#[kani::stub(crate::serialize::CompressedStreamWriter::serialized_len_upperbound_after, stub_upper)]
#[kani::stub(crate::serialize::CompressedStreamWriter::append, stub_append)]
#[kani::stub(crate::serialize::CompressedStreamWriter::finish, stub_finish)]
fn probe_pair_000_000() { run_pair_probe(0, 0, 7); }

#[kani::proof]
#[kani::unwind(5)]
#[kani::stub(crate::listener::Listeners::trigger_event, noop_trigger)]
#[kani::stub(crate::serialize::CompressedStreamWriter::serialized_len_upperbound_after, stub_upper)]
#[kani::stub(crate::serialize::CompressedStreamWriter::append, stub_append)]
#[kani::stub(crate::serialize::CompressedStreamWriter::finish, stub_finish)]
fn probe_pair_011_001() { run_pair_probe(0b011, 0b001, 7); }

#[kani::proof]
#[kani::unwind(5)]
#[kani::stub(crate::listener::Listeners::trigger_event, noop_trigger)]
#[kani::stub(crate::serialize::CompressedStreamWriter::serialized_len_upperbound_after, stub_upper)]
#[kani::stub(crate::serialize::CompressedStreamWriter::append, stub_append)]
#[kani::stub(crate::serialize::CompressedStreamWriter::finish, stub_finish)]
fn probe_pair_001_001() { run_pair_probe(0b001, 0b001, 7); }

#[kani::proof]
#[kani::unwind(5)]
#[kani::stub(crate::listener::Listeners::trigger_event, noop_trigger)]
#[kani::stub(crate::serialize::CompressedStreamWriter::serialized_len_upperbound_after, stub_upper)]
#[kani::stub(crate::serialize::CompressedStreamWriter::append, stub_append)]
#[kani::stub(crate::serialize::CompressedStreamWriter::finish, stub_finish)]
fn probe_sender_only_011() {
    unsafe { crate::vstd::randmodel::SINGLE_MEMBER = true; }
    let s = shaped_state(0b011, 7);
    let r = shaped_state(0, 7);
    let s_max = s.max_version; let r_max = r.max_version;
    let delta = sender_delta(s, &r);
    assert!(delta.node_deltas.len() <= 1);
    if delta.node_deltas.len() == 1 { assert!(s_max > r_max); }
    std::mem::forget(delta); std::mem::forget(r);
}

#[kani::proof]
#[kani::unwind(5)]
#[kani::stub(crate::listener::Listeners::trigger_event, noop_trigger)]
fn probe_apply_only_001() {
    let mut r = shaped_state(0b001, 7);
    let before = r.monotonic_property();
    let mut kvs = Vec::new();
    let v1: u64 = kani::any(); let v2: u64 = kani::any();
    kani::assume(v1 >= 1 && v1 < v2 && v2 <= 7);
    kvs.push(KeyValueMutation { key: "a".to_string(), value: String::new(), version: v1, status: DeletionStatusMutation::Set });
    kvs.push(KeyValueMutation { key: "b".to_string(), value: String::new(), version: v2, status: DeletionStatusMutation::Delete });
    let nd = NodeDelta { chitchat_id: xid(), from_version_excluded: kani::any(), last_gc_version: kani::any(), key_values: kvs, max_version: v2 };
    let st = r.apply_delta(nd, Instant { secs: 0, nanos: 0 });
    assert!(r.monotonic_property() >= before);
    std::mem::forget(r);
}

fn mk_cs_one(sender_copy: NodeState) -> ClusterState {
    let id = sender_copy.chitchat_id.clone();
    let (tx, rx) = watch::channel(HashSet::default());
    std::mem::forget(tx);
    let mut cs = ClusterState::with_seed_addrs(rx);
    cs.node_states.insert(id, sender_copy);
    cs
}
#[kani::proof]
#[kani::unwind(4)]
fn m1_digest() {
    let s = shaped_state(0, 7);
    let cs = mk_cs_one(s);
    let sched: HashSet<&ChitchatId> = HashSet::default();
    let d = cs.compute_digest(&sched);
    assert!(d.node_digests.len() == 1);
    std::mem::forget(cs); std::mem::forget(d); std::mem::forget(sched);
}
#[kani::proof]
#[kani::unwind(4)]
fn m2_stale() {
    unsafe { crate::vstd::randmodel::SINGLE_MEMBER = true; }
    let s = shaped_state(0, 7);
    let id = xid();
    let mut sn = SortedStaleNodes::default();
    let from: u64 = kani::any();
    sn.offer(&id, &s, from);
    let mut n = 0;
    for x in sn.into_iter() { n += 1; assert!(x.from_version_excluded == from); }
    assert!(n <= 1);
    std::mem::forget(s);
}
#[kani::proof]
#[kani::unwind(4)]
#[kani::stub(crate::serialize::CompressedStreamWriter::serialized_len_upperbound_after, stub_upper)]
#[kani::stub(crate::serialize::CompressedStreamWriter::append, stub_append)]
#[kani::stub(crate::serialize::CompressedStreamWriter::finish, stub_finish)]
fn m3_serializer() {
    let mut ds = DeltaSerializer::with_mtu(65_000);
    let ok = ds.try_add_node(xid(), kani::any(), kani::any());
    if ok {
        let v: u64 = kani::any();
        kani::assume(v > 0);
        let ok2 = ds.try_add_kv("a", VersionedValue { value: String::new(), version: v, status: DeletionStatus::Set });
    }
    let d = ds.finish();
    assert!(d.node_deltas.len() <= 1);
    std::mem::forget(d);
}
#[kani::proof]
#[kani::unwind(4)]
#[kani::stub(crate::listener::Listeners::trigger_event, noop_trigger)]
#[kani::stub(crate::serialize::CompressedStreamWriter::serialized_len_upperbound_after, stub_upper)]
#[kani::stub(crate::serialize::CompressedStreamWriter::append, stub_append)]
#[kani::stub(crate::serialize::CompressedStreamWriter::finish, stub_finish)]
fn m4_sender_000() {
    unsafe { crate::vstd::randmodel::SINGLE_MEMBER = true; }
    let s = shaped_state(0, 7);
    let r = shaped_state(0, 7);
    let s_max = s.max_version; let r_max = r.max_version;
    let delta = sender_delta(s, &r);
    assert!(delta.node_deltas.len() <= 1);
    if delta.node_deltas.len() == 1 { assert!(s_max > r_max); }
    std::mem::forget(delta); std::mem::forget(r);
}
#[kani::proof]
#[kani::unwind(4)]
fn m2a_offer_only() {
    let s = shaped_state(0, 7);
    let id = xid();
    let mut sn = SortedStaleNodes::default();
    let from: u64 = kani::any();
    sn.offer(&id, &s, from);
    assert!(sn.stale_nodes.len() <= 1);
    std::mem::forget(sn); std::mem::forget(s);
}
#[kani::proof]
#[kani::unwind(4)]
fn m2b_into_values() {
    let s = shaped_state(0, 7);
    let id = xid();
    let mut sn = SortedStaleNodes::default();
    let from: u64 = kani::any();
    sn.offer(&id, &s, from);
    let mut n = 0;
    for v in sn.stale_nodes.into_values() { n += v.len(); std::mem::forget(v); }
    assert!(n <= 1);
    std::mem::forget(s);
}
#[kani::proof]
#[kani::unwind(4)]
fn m2c_vec_iter() {
    let s = shaped_state(0, 7);
    let id = xid();
    let mut v: Vec<StaleNode> = Vec::new();
    if kani::any() { v.push(StaleNode { chitchat_id: &id, node_state: &s, from_version_excluded: kani::any() }); }
    let mut n = 0;
    for x in v.into_iter() { n += 1; }
    assert!(n <= 1);
    std::mem::forget(s);
}
fn m2_setup<'a>(id: &'a ChitchatId, s: &'a NodeState) -> SortedStaleNodes<'a> {
    let mut sn = SortedStaleNodes::default();
    let from: u64 = kani::any();
    sn.offer(id, s, from);
    sn
}
#[kani::proof]
#[kani::unwind(4)]
fn m2_a_rev() {
    let s = shaped_state(0, 7); let id = xid();
    let sn = m2_setup(&id, &s);
    let mut n = 0;
    for v in sn.stale_nodes.into_values().rev() { n += v.len(); std::mem::forget(v); }
    assert!(n <= 1);
    std::mem::forget(s);
}
#[kani::proof]
#[kani::unwind(4)]
fn m2_b_flat() {
    let s = shaped_state(0, 7); let id = xid();
    let sn = m2_setup(&id, &s);
    let mut n = 0;
    for x in sn.stale_nodes.into_values().flat_map(|v| v.into_iter()) { n += 1; }
    assert!(n <= 1);
    std::mem::forget(s);
}
#[kani::proof]
#[kani::unwind(4)]
fn m2_c_flat_forget() {
    let s = shaped_state(0, 7); let id = xid();
    let sn = m2_setup(&id, &s);
    let mut n = 0;
    let mut it = sn.stale_nodes.into_values().flat_map(|v| v.into_iter());
    if let Some(x) = it.next() { n += 1; }
    if let Some(x) = it.next() { n += 1; }
    assert!(n <= 1);
    std::mem::forget(it);
    std::mem::forget(s);
}
fn t_slot<'a>(id: &'a ChitchatId, s: &'a NodeState) -> Option<Vec<StaleNode<'a>>> {
    let mut slot: Option<Vec<StaleNode>> = None;
    if kani::any() { let mut v = Vec::new(); v.push(StaleNode { chitchat_id: id, node_state: s, from_version_excluded: kani::any() }); slot = Some(v); }
    slot
}
#[kani::proof]
#[kani::unwind(4)]
fn t1_slot_into_iter() {
    let s = shaped_state(0, 7); let id = xid();
    let mut slot = t_slot(&id, &s);
    let mut n = 0;
    if let Some(v) = slot.take() { for x in v.into_iter() { n += 1; } }
    assert!(n <= 1);
    std::mem::forget(s);
}
#[kani::proof]
#[kani::unwind(4)]
fn t2_slot_pop() {
    let s = shaped_state(0, 7); let id = xid();
    let mut slot = t_slot(&id, &s);
    let mut n = 0;
    if let Some(mut v) = slot.take() { while let Some(x) = v.pop() { n += 1; } std::mem::forget(v); }
    assert!(n <= 1);
    std::mem::forget(s);
}
#[kani::proof]
#[kani::unwind(4)]
fn t3_slot_next_forget() {
    let s = shaped_state(0, 7); let id = xid();
    let mut slot = t_slot(&id, &s);
    let mut n = 0;
    if let Some(v) = slot.take() { let mut it = v.into_iter(); if it.next().is_some() { n += 1; } if it.next().is_some() { n += 1; } std::mem::forget(it); }
    assert!(n <= 1);
    std::mem::forget(s);
}
#[kani::proof]
#[kani::unwind(4)]
fn t4_model_map_vec() {
    let s = shaped_state(0, 7); let id = xid();
    let mut m: BTreeMap<u64, Vec<StaleNode>> = BTreeMap::new();
    if kani::any() { m.entry(kani::any()).or_default().push(StaleNode { chitchat_id: &id, node_state: &s, from_version_excluded: kani::any() }); }
    let mut n = 0;
    for v in m.into_values() { for x in v.into_iter() { n += 1; } }
    assert!(n <= 1);
    std::mem::forget(s);
}
#[kani::proof]
#[kani::unwind(4)]
fn t5_model_map_vec_nobranch() {
    let s = shaped_state(0, 7); let id = xid();
    let mut m: BTreeMap<u64, Vec<StaleNode>> = BTreeMap::new();
    m.entry(kani::any()).or_default().push(StaleNode { chitchat_id: &id, node_state: &s, from_version_excluded: kani::any() });
    let mut n = 0;
    for v in m.into_values() { for x in v.into_iter() { n += 1; } }
    assert!(n <= 1);
    std::mem::forget(s);
}
#[kani::proof]
#[kani::unwind(4)]
fn t6_model_map_staleness_key() {
    let s = shaped_state(0, 7); let id = xid();
    let mut m: BTreeMap<Staleness, Vec<StaleNode>> = BTreeMap::new();
    if kani::any() {
        let k = Staleness { is_unknown: kani::any(), max_version: kani::any(), num_stale_key_values: kani::any() };
        m.entry(k).or_default().push(StaleNode { chitchat_id: &id, node_state: &s, from_version_excluded: kani::any() });
    }
    let mut n = 0;
    for v in m.into_values() { for x in v.into_iter() { n += 1; } }
    assert!(n <= 1);
    std::mem::forget(s);
}
#[kani::proof]
#[kani::unwind(4)]
fn t7_offer_manual_loops() {
    let s = shaped_state(0, 7); let id = xid();
    let sn = m2_setup(&id, &s);
    let mut n = 0;
    for v in sn.stale_nodes.into_values() { for x in v.into_iter() { n += 1; } }
    assert!(n <= 1);
    std::mem::forget(s);
}
macro_rules! t6_variant { ($name:ident, $kty:ty, $k:expr) => {
#[kani::proof]
#[kani::unwind(4)]
fn $name() {
    let s = shaped_state(0, 7); let id = xid();
    let mut m: BTreeMap<$kty, Vec<StaleNode>> = BTreeMap::new();
    if kani::any() {
        let k: $kty = $k;
        m.entry(k).or_default().push(StaleNode { chitchat_id: &id, node_state: &s, from_version_excluded: kani::any() });
    }
    let mut n = 0;
    for v in m.into_values() { for x in v.into_iter() { n += 1; } }
    assert!(n <= 1);
    std::mem::forget(s);
}}}
t6_variant!(t6_bool, bool, kani::any());
t6_variant!(t6_tuple, (u64, usize), (kani::any(), kani::any()));
t6_variant!(t6_stale_concrete_bool, Staleness, Staleness { is_unknown: false, max_version: kani::any(), num_stale_key_values: kani::any() });
t6_variant!(t6_u8, u8, kani::any());
#[derive(Clone, Copy, PartialEq, Eq, PartialOrd, Ord)] struct K3 { a: u64, b: u64, c: usize }
#[derive(Clone, Copy, PartialEq, Eq, PartialOrd, Ord)] struct KB { a: u64, b: bool }
#[derive(Clone, Copy, PartialEq, Eq, PartialOrd, Ord)] struct KB2 { a: u64, b: u8 }
t6_variant!(t6_k3, K3, K3 { a: kani::any(), b: kani::any(), c: kani::any() });
t6_variant!(t6_kb, KB, KB { a: kani::any(), b: false });
t6_variant!(t6_kb2, KB2, KB2 { a: kani::any(), b: 0 });
#[kani::proof]
#[kani::unwind(4)]
#[kani::stub(crate::listener::Listeners::trigger_event, noop_trigger)]
#[kani::stub(crate::serialize::CompressedStreamWriter::serialized_len_upperbound_after, stub_upper)]
#[kani::stub(crate::serialize::CompressedStreamWriter::append, stub_append)]
#[kani::stub(crate::serialize::CompressedStreamWriter::finish, stub_finish)]
fn m5_split_000() {
    // the body of compute_partial_delta_respecting_mtu re-assembled from the real pieces, single member
    unsafe { crate::vstd::randmodel::SINGLE_MEMBER = true; }
    let s = shaped_state(0, 7);
    let r = shaped_state(0, 7);
    let id = xid();
    let mut digest = Digest::default();
    digest.node_digests.insert(id.clone(), r.digest());
    let (dgc, dmax) = digest.node_digests.get(&id).map(|d| (d.last_gc_version, d.max_version)).unwrap_or((0, 0));
    let mut sn = SortedStaleNodes::default();
    if s.max_version > dmax {
        let should_reset = dgc < s.last_gc_version && dmax < s.last_gc_version;
        let from = if should_reset { 0 } else { dmax };
        sn.offer(&id, &s, from);
    }
    let mut ds = DeltaSerializer::with_mtu(65_000);
    for stale_node in sn.into_iter() {
        if !ds.try_add_node(stale_node.chitchat_id.clone(), stale_node.node_state.last_gc_version, stale_node.from_version_excluded) { break; }
        let mut added = false;
        for (key, vv) in stale_node.stale_key_values() {
            if !ds.try_add_kv(key, vv.clone()) { break; }
            added = true;
        }
        if !added { let _ = ds.try_set_max_version(stale_node.node_state.max_version); }
    }
    let delta = ds.finish();
    assert!(delta.node_deltas.len() <= 1);
    std::mem::forget(delta); std::mem::forget(r); std::mem::forget(digest); std::mem::forget(s);
}

// ---------------------------------------------------------------------------------------------
// Pair step with the delta recorder (see h_delta.rs): real compute_partial_delta_respecting_mtu on the sender
// copy, truncated anywhere, real NodeState::apply_delta on the receiver copy.
use crate::delta::verif_delta as rec;

fn rec_reset(cut: usize) { unsafe { rec::REC_N = 0; rec::REC_CALLS = 0; rec::REC_CUT = cut; rec::REC_FINISHED = false; } }

fn key_string(b: u8) -> String { let mut s = String::with_capacity(1); s.push(b as char); s }

/// NodeDelta for member x rebuilt from the recorded ops (what the real DeltaBuilder would group them into).
fn recorded_node_delta() -> Option<NodeDelta> {
    let n = unsafe { rec::REC_N };
    if n == 0 { return None; }
    let ops = unsafe { rec::REC };
    assert!(ops[0].kind == rec::REC_NODE, "first op is a member header");
    let mut kvs: Vec<KeyValueMutation> = Vec::with_capacity(3);
    let mut n_kv = 0usize;
    let mut max_version = 0u64;
    let mut i = 1;
    while i <= 3 {
        let op = ops[i];
        let st = if op.status < 3 { DeletionStatusMutation::try_from(op.status).unwrap() } else { DeletionStatusMutation::Set };
        kvs.push(KeyValueMutation { key: key_string(op.key0), value: String::new(), version: op.version, status: st });
        if i < n && op.kind == rec::REC_KV { assert!(n_kv == i - 1, "key-values are contiguous after the header"); n_kv = i; max_version = op.version; }
        i += 1;
    }
    if n >= 2 && ops[1].kind == rec::REC_SETMAX { assert!(n == 2, "SetMaxVersion is the only op of its member"); max_version = ops[1].version; }
    if n >= 2 && ops[1].kind == rec::REC_KV { let mut j = 1; while j < 5 { if j < n { assert!(ops[j].kind == rec::REC_KV, "only key-values follow a key-value"); } j += 1; } }
    unsafe { kvs.set_len(n_kv); }
    Some(NodeDelta { chitchat_id: xid(), from_version_excluded: ops[0].from, last_gc_version: ops[0].gc, key_values: kvs, max_version })
}

fn run_pair_rec(smask: u8, rmask: u8, vmax: u64) {
    unsafe { crate::vstd::randmodel::SINGLE_MEMBER = true; }
    let cut: usize = kani::any();
    rec_reset(cut);
    let s = shaped_state(smask, vmax);
    let mut r = shaped_state(rmask, vmax);
    let (s_gc, s_max) = (s.last_gc_version, s.max_version);
    let (r_gc, r_max) = (r.last_gc_version, r.max_version);
    let d = sender_delta(s, &r);
    std::mem::forget(d);
    let sender_ahead = s_max > r_max;
    let nd = recorded_node_delta();
    if !sender_ahead { assert!(nd.is_none()); }
    if sender_ahead && cut >= 1 { assert!(nd.is_some()); }
    if let Some(nd) = nd {
        let expect_reset = r_gc < s_gc && r_max < s_gc;
        let header_only = nd.key_values.is_empty() && nd.max_version == 0;
        let before = r.monotonic_property();
        let st = r.apply_delta(nd, Instant { secs: 0, nanos: 0 });
        if !header_only {
            assert!(st != DeltaStatus::Reject);
            assert!(r.monotonic_property() > before);
        }
        assert!((st == DeltaStatus::ApplyAfterReset) == expect_reset || (header_only && !expect_reset));
        kani::cover!(st == DeltaStatus::ApplyAfterReset, "reset");
        kani::cover!(st == DeltaStatus::Apply, "apply");
    }
    std::mem::forget(r);
}

macro_rules! rec_harness { ($name:ident, $body:expr) => {
#[kani::proof]
#[kani::unwind(4)]
#[kani::stub(crate::listener::Listeners::trigger_event, noop_trigger)]
#[kani::stub(crate::delta::DeltaSerializer::with_mtu, crate::delta::verif_delta::rec_with_mtu)]
#[kani::stub(crate::delta::DeltaSerializer::try_add_node, crate::delta::verif_delta::rec_try_add_node)]
#[kani::stub(crate::delta::DeltaSerializer::try_add_kv, crate::delta::verif_delta::rec_try_add_kv)]
#[kani::stub(crate::delta::DeltaSerializer::try_set_max_version, crate::delta::verif_delta::rec_try_set_max_version)]
#[kani::stub(crate::delta::DeltaSerializer::finish, crate::delta::verif_delta::rec_finish)]
fn $name() { $body }
}}
rec_harness!(rp_000_000, run_pair_rec(0, 0, 7));
rec_harness!(rp_001_001, run_pair_rec(1, 1, 7));
rec_harness!(rp_011_001, run_pair_rec(3, 1, 7));
rec_harness!(rp_111_111, run_pair_rec(7, 7, 7));

fn run_sender_rec_probe(smask: u8, vmax: u64) {
    unsafe { crate::vstd::randmodel::SINGLE_MEMBER = true; }
    let cut: usize = kani::any();
    rec_reset(cut);
    let s = shaped_state(smask, vmax);
    let (s_gc, s_max) = (s.last_gc_version, s.max_version);
    let r = bare_state(kani::any(), kani::any());
    let (r_gc, r_max) = (r.last_gc_version, r.max_version);
    let d = sender_delta(s, &r);
    std::mem::forget(d);
    let n = unsafe { rec::REC_N };
    let ops = unsafe { rec::REC };
    if s_max <= r_max { assert!(n == 0); }
    else if cut >= 1 {
        assert!(n >= 1 && ops[0].kind == rec::REC_NODE);
        let expect_reset = r_gc < s_gc && r_max < s_gc;
        assert!(ops[0].from == if expect_reset { 0 } else { r_max });
        assert!(ops[0].gc == s_gc);
    }
    std::mem::forget(r);
}
rec_harness!(sp_000, run_sender_rec_probe(0, 7));
rec_harness!(sp_001, run_sender_rec_probe(1, 7));
rec_harness!(sp_011, run_sender_rec_probe(3, 7));
rec_harness!(sp_111, run_sender_rec_probe(7, 7));
#[kani::proof]
#[kani::unwind(4)]
fn m6_stale_deref() {
    unsafe { crate::vstd::randmodel::SINGLE_MEMBER = true; }
    let s = shaped_state(0, 7);
    let id = xid();
    let mut sn = SortedStaleNodes::default();
    let from: u64 = kani::any();
    sn.offer(&id, &s, from);
    let mut n = 0;
    for x in sn.into_iter() { n += 1; assert!(x.node_state.max_version > from); assert!(x.stale_key_values().count() == 0); }
    assert!(n <= 1);
    std::mem::forget(s);
}
#[kani::proof]
#[kani::unwind(4)]
fn m6a_deref_only() {
    unsafe { crate::vstd::randmodel::SINGLE_MEMBER = true; }
    let s = shaped_state(0, 7); let id = xid();
    let mut sn = SortedStaleNodes::default();
    let from: u64 = kani::any();
    sn.offer(&id, &s, from);
    let mut n = 0;
    for x in sn.into_iter() { n += 1; assert!(x.node_state.max_version > from); }
    assert!(n <= 1);
    std::mem::forget(s);
}
#[kani::proof]
#[kani::unwind(4)]
fn m6b_direct_stale_kvs() {
    let s = shaped_state(0, 7);
    let from: u64 = kani::any();
    assert!(s.stale_key_values(from).count() == 0);
    std::mem::forget(s);
}
#[kani::proof]
#[kani::unwind(4)]
fn m6c_direct_sorted() {
    let s = shaped_state(0, 7); let id = xid();
    let from: u64 = kani::any();
    let sn = StaleNode { chitchat_id: &id, node_state: &s, from_version_excluded: from };
    assert!(sn.stale_key_values().count() == 0);
    std::mem::forget(s);
}
#[kani::proof]
#[kani::unwind(4)]
fn m6d_direct_sorted_011() {
    let s = shaped_state(3, 7); let id = xid();
    let from: u64 = kani::any();
    let sn = StaleNode { chitchat_id: &id, node_state: &s, from_version_excluded: from };
    let mut last = 0;
    for (k, v) in sn.stale_key_values() { assert!(v.version > last && v.version > from); last = v.version; }
    std::mem::forget(s);
}
