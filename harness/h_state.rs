// Harnesses over chitchat/src/state.rs (child module: private items are reachable).
//
// Conventions (DESIGN.md 2.3): one-byte ids and keys; container *shape* concrete (presence masks), every
// version / watermark / status / instant symbolic; `PROPS` selects which property's assertions are compiled
// into a query (a concrete static, folded by the solver front end), so a check only ever reports its own
// property; every harness leaks what it built.
use crate::types::KeyValueMutation;
use crate::delta::verif_delta as rec;

// ---------------------------------------------------------------------------------------------
// property selection
pub(crate) const P_C01: u32 = 1 << 1;
pub(crate) const P_C02: u32 = 1 << 2;
pub(crate) const P_C03: u32 = 1 << 3;
pub(crate) const P_C04: u32 = 1 << 4;
pub(crate) const P_C05: u32 = 1 << 5;
pub(crate) const P_C06: u32 = 1 << 6;
pub(crate) const P_C07: u32 = 1 << 7;
pub(crate) const P_C14: u32 = 1 << 14;
pub(crate) const P_C20: u32 = 1 << 20;
pub(crate) const P_KF1: u32 = 1 << 30;
static mut PROPS: u32 = 0;
fn want(p: u32) -> bool { unsafe { PROPS & p != 0 } }
fn select(p: u32) { unsafe { PROPS = p; } }

// ---------------------------------------------------------------------------------------------
// builders
const KEYS: [&str; 3] = ["a", "b", "c"];
const T0: Instant = Instant { secs: 0, nanos: 0 };

/// one-byte node id: id comparisons are memcmp loops unwound at every map lookup
fn xid() -> ChitchatId { ChitchatId::new("x".to_string(), 0, ([127, 0, 0, 1], 1).into()) }
fn yid() -> ChitchatId { ChitchatId::new("y".to_string(), 0, ([127, 0, 0, 1], 2).into()) }
fn empty_state_for(id: ChitchatId) -> NodeState { NodeState::new(id, Listeners::default()) }
fn empty_state() -> NodeState { empty_state_for(xid()) }
fn bare_state(gc: u64, max: u64) -> NodeState {
    let mut ns = empty_state();
    ns.max_version = max;
    ns.last_gc_version = gc;
    ns
}
fn status_of(code: u8, t: Instant) -> DeletionStatus { DeletionStatusMutation::try_from(code).unwrap().into_status(t) }
fn code_of(st: &DeletionStatus) -> u8 { let m: DeletionStatusMutation = (*st).into(); m as u8 }
fn any_code() -> u8 { let c: u8 = kani::any(); kani::assume(c < 3); c }

/// Plain-old-data view of one copy of a member's state over KEYS (the reference side of every oracle).
#[derive(Clone, Copy)]
struct E { present: bool, version: u64, status: u8 }
#[derive(Clone, Copy)]
struct Copy3 { e: [E; 3], gc: u64, max: u64 }

/// well-formedness every reachable copy has: versions 1..=max, pairwise distinct
fn wf(c: &Copy3) -> bool {
    let mut ok = true;
    let mut i = 0;
    while i < 3 {
        if c.e[i].present {
            ok = ok && c.e[i].version >= 1 && c.e[i].version <= c.max && c.e[i].status < 3;
            let mut j = 0;
            while j < i { if c.e[j].present { ok = ok && c.e[j].version != c.e[i].version; } j += 1; }
        }
        i += 1;
    }
    ok
}
fn any_copy3(mask_known: Option<u8>, vmax: u64) -> Copy3 {
    let mut e = [E { present: false, version: 0, status: 0 }; 3];
    let mut i = 0;
    while i < 3 {
        let present = match mask_known { Some(m) => m & (1 << i) != 0, None => kani::any() };
        if present { e[i] = E { present: true, version: kani::any(), status: any_code() }; }
        i += 1;
    }
    let c = Copy3 { e, gc: kani::any(), max: kani::any() };
    kani::assume(c.gc <= vmax && c.max <= vmax);
    kani::assume(wf(&c));
    c
}
/// real NodeState holding exactly `c` (tombstone instants `t`)
fn build_state(c: &Copy3, t: Instant) -> NodeState {
    let mut ns = empty_state();
    let mut i = 0;
    while i < 3 {
        if c.e[i].present {
            ns.key_values.insert(KEYS[i].to_string(), VersionedValue { value: String::new(), version: c.e[i].version, status: status_of(c.e[i].status, t) });
        }
        i += 1;
    }
    ns.max_version = c.max;
    ns.last_gc_version = c.gc;
    ns
}
/// read a real NodeState back into the POD view (through the public read API)
fn snapshot(ns: &NodeState) -> Copy3 {
    let mut e = [E { present: false, version: 0, status: 0 }; 3];
    let mut i = 0;
    while i < 3 {
        if let Some(vv) = ns.get_versioned(KEYS[i]) { e[i] = E { present: true, version: vv.version, status: code_of(&vv.status) }; }
        i += 1;
    }
    Copy3 { e, gc: ns.last_gc_version(), max: ns.max_version() }
}
fn shaped_state(mask: u8, vmax: u64) -> (NodeState, Copy3) {
    let c = any_copy3(Some(mask), vmax);
    (build_state(&c, T0), c)
}

// ---------------------------------------------------------------------------------------------
// reference model of the sender (the contract between state.rs' delta computation and its consumers)
#[derive(Clone, Copy)]
struct SpecKv { key: usize, version: u64, status: u8 }
#[derive(Clone, Copy)]
struct SpecDelta { present: bool, from: u64, gc: u64, kv: [SpecKv; 3], n_kv: usize, max: u64, reset: bool, n_stale: usize }

/// What an honest sender holding copy `s` emits for a peer digest (dgc, dmax) when exactly `accepted` ops fit
/// (header included). Stale entries = version > from, ascending by version; an empty stale list is replaced by
/// one SetMaxVersion(s.max) op.
fn spec_delta(s: &Copy3, dgc: u64, dmax: u64, accepted: usize) -> SpecDelta {
    let none = SpecDelta { present: false, from: 0, gc: 0, kv: [SpecKv { key: 0, version: 0, status: 0 }; 3], n_kv: 0, max: 0, reset: false, n_stale: 0 };
    if s.max <= dmax { return none; }
    let reset = dgc < s.gc && dmax < s.gc;
    let from = if reset { 0 } else { dmax };
    // selection sort of the stale entries by version (versions are distinct)
    let mut kv = none.kv;
    let mut used = [false; 3];
    let mut n = 0;
    let mut round = 0;
    while round < 3 {
        let mut best: Option<usize> = None;
        let mut i = 0;
        while i < 3 {
            if s.e[i].present && s.e[i].version > from && !used[i] {
                match best { None => best = Some(i), Some(b) => if s.e[i].version < s.e[b].version { best = Some(i); } }
            }
            i += 1;
        }
        if let Some(b) = best { used[b] = true; kv[n] = SpecKv { key: b, version: s.e[b].version, status: s.e[b].status }; n += 1; }
        round += 1;
    }
    if accepted == 0 { return none; }
    let mut d = SpecDelta { present: true, from, gc: s.gc, kv, n_kv: 0, max: 0, reset, n_stale: n };
    if n == 0 {
        if accepted >= 2 { d.max = s.max; }
    } else {
        let k = if accepted - 1 < n { accepted - 1 } else { n };
        d.n_kv = k;
        if k > 0 { d.max = kv[k - 1].version; }
    }
    d
}
fn key_string(i: usize) -> String { let mut s = String::with_capacity(1); s.push((b'a' + i as u8) as char); s }
fn node_delta_of(d: &SpecDelta) -> NodeDelta {
    let mut kvs: Vec<KeyValueMutation> = Vec::with_capacity(3);
    let mut i = 0;
    while i < 3 {
        kvs.push(KeyValueMutation { key: key_string(d.kv[i].key), value: String::new(), version: d.kv[i].version, status: DeletionStatusMutation::try_from(d.kv[i].status).unwrap() });
        i += 1;
    }
    unsafe { kvs.set_len(d.n_kv); }
    NodeDelta { chitchat_id: xid(), from_version_excluded: d.from, last_gc_version: d.gc, key_values: kvs, max_version: d.max }
}

// ---------------------------------------------------------------------------------------------
// owner ledger and the per-copy invariants I1..I4 (DESIGN.md section 3)
const LMAX: usize = 8;
#[derive(Clone, Copy)]
struct Ledger { key: [u8; LMAX], status: [u8; LMAX], v: u64 }
fn any_ledger(vmax: u64) -> Ledger {
    let l = Ledger { key: kani::any(), status: kani::any(), v: kani::any() };
    kani::assume(l.v <= vmax && (vmax as usize) < LMAX);
    let mut i = 1;
    while i < LMAX { kani::assume(l.key[i] < 3 && l.status[i] < 3); i += 1; }
    l
}
/// latest write of key k at or below the owner's max version (0 = never written)
fn latest(l: &Ledger, k: usize) -> u64 {
    let mut best = 0u64;
    let mut i = 1;
    while i < LMAX { if (i as u64) <= l.v && l.key[i] as usize == k { best = i as u64; } i += 1; }
    best
}
fn inv_i1(l: &Ledger, c: &Copy3) -> bool { c.max <= l.v && c.gc <= l.v }
fn inv_i2(l: &Ledger, c: &Copy3) -> bool {
    let mut ok = true;
    let mut k = 0;
    while k < 3 {
        if c.e[k].present {
            let ver = c.e[k].version;
            ok = ok && ver >= 1 && ver <= c.max && ver <= l.v && (ver as usize) < LMAX;
            if ok { ok = l.key[ver as usize] as usize == k && l.status[ver as usize] == c.e[k].status; }
        }
        k += 1;
    }
    ok
}
fn inv_i3(l: &Ledger, c: &Copy3) -> bool {
    let mut ok = true;
    let mut k = 0;
    while k < 3 {
        let lk = latest(l, k);
        if lk >= 1 && lk <= c.max {
            let exact = c.e[k].present && c.e[k].version == lk;
            let collected = l.status[lk as usize] != 0 && lk <= c.gc && !c.e[k].present;
            ok = ok && (exact || collected);
        }
        k += 1;
    }
    ok
}
fn inv_i4(l: &Ledger, c: &Copy3) -> bool {
    let mut ok = true;
    let mut k = 0;
    while k < 3 {
        let lk = latest(l, k);
        if lk >= 1 && l.status[lk as usize] != 0 && lk <= c.gc { ok = ok && (!c.e[k].present || c.e[k].version == lk); }
        k += 1;
    }
    ok
}
fn inv_all(l: &Ledger, c: &Copy3) -> bool { wf(c) && inv_i1(l, c) && inv_i2(l, c) && inv_i3(l, c) && inv_i4(l, c) }

// ---------------------------------------------------------------------------------------------
// RECEIVER STEP (S3, receiver half): real NodeState::apply_delta on the delta an honest sender emits
//
// sender copy: fully symbolic POD (presence included); receiver copy: real NodeState, presence mask concrete.
fn rcv_step(rmask: u8, vmax: u64, own_digest: bool, with_ledger: bool) {
    let s = any_copy3(None, vmax);
    let (mut r, rc) = shaped_state(rmask, vmax);
    // the digest the sender saw: the receiver's current one, or any earlier one of the same copy
    let (dgc, dmax) = if own_digest { (rc.gc, rc.max) } else {
        let g: u64 = kani::any(); let m: u64 = kani::any();
        kani::assume(g <= vmax && m <= vmax && (g, m) <= (rc.gc, rc.max));
        (g, m)
    };
    let accepted: usize = kani::any();
    kani::assume(accepted <= 4);
    let ledger = if with_ledger {
        let l = any_ledger(vmax);
        kani::assume(inv_all(&l, &s) && inv_all(&l, &rc));
        Some(l)
    } else { None };
    let d = spec_delta(&s, dgc, dmax, accepted);
    if !d.present { std::mem::forget(r); return; }
    let header_only = d.n_kv == 0 && d.max == 0;
    // known finding KF-1 (DESIGN.md 2.4): a copy that is mid-reset (watermark above max version) takes an
    // incremental delta from a sender whose own watermark is lower
    let kf1 = rc.gc > rc.max && s.gc < rc.gc && !header_only;
    if want(P_KF1) { kani::assume(kf1); } else if want(P_C02) { kani::assume(!kf1); }
    let nd = node_delta_of(&d);
    let st = r.apply_delta(nd, T0);
    let after = snapshot(&r);
    kani::cover!(st == DeltaStatus::ApplyAfterReset, "reset taken");
    kani::cover!(st == DeltaStatus::Apply && d.n_kv >= 2, "incremental delta with two key-values applied");
    kani::cover!(st == DeltaStatus::Reject, "delta rejected");
    kani::cover!(d.n_kv < d.n_stale, "delta truncated");
    kani::cover!(rc.gc > rc.max, "receiver mid-reset");
    if want(P_C14) || want(P_C01) {
        // property's own assumption: at least one op beyond the header fits
        if own_digest && !header_only {
            assert!(st != DeltaStatus::Reject, "C01/C14: delta computed from the receiver's own digest is refused");
            assert!((st == DeltaStatus::ApplyAfterReset) == (rc.max < s.gc && rc.gc < s.gc), "C14: reset iff both frontier components are below the sender's watermark");
            if st == DeltaStatus::ApplyAfterReset { assert!(d.from == 0, "C14: reset delta starts from version 0"); }
            assert!((after.gc, after.max) > (rc.gc, rc.max), "C01/C14: applying the delta strictly advances (watermark, max version)");
        }
    }
    if want(P_C04) {
        assert!((after.gc, after.max) >= (rc.gc, rc.max), "C04: frontier decreased");
        let mut k = 0;
        while k < 3 {
            if rc.e[k].present {
                let wiped = st == DeltaStatus::ApplyAfterReset && after.gc > rc.gc;
                assert!(wiped || (after.e[k].present && after.e[k].version >= rc.e[k].version), "C04: a key's version decreased or the key vanished without a reset");
            }
            k += 1;
        }
        if st == DeltaStatus::Reject { assert!(after.gc == rc.gc && after.max == rc.max, "C04: rejected delta changed the frontier"); }
    }
    if let Some(l) = ledger {
        if want(P_C03) {
            assert!(inv_i1(&l, &after), "C03: copy ran ahead of the owner");
            assert!(inv_i2(&l, &after), "C03: copy holds an entry the owner never wrote with that version/status");
        }
        if want(P_C02) || want(P_KF1) {
            let ok = inv_i3(&l, &after) && inv_i4(&l, &after);
            if want(P_KF1) { kani::cover!(!ok, "KF-1 reproduced: stale entry installed below the watermark"); }
            else {
                assert!(inv_i3(&l, &after), "C02: copy not exact up to its max version");
                assert!(inv_i4(&l, &after), "C02: entry older than a collected tombstone survives (resurrection)");
            }
        }
    }
    std::mem::forget(r);
}

// ---------------------------------------------------------------------------------------------
// C04(b): every (copy, delta) pair in scope, whether or not an honest sender could have produced it
fn any_node_delta(n_kv: usize, vmax: u64, honest_max: bool) -> (NodeDelta, [SpecKv; 3], u64) {
    let mut kvs: Vec<KeyValueMutation> = Vec::with_capacity(3);
    let mut spec = [SpecKv { key: 0, version: 0, status: 0 }; 3];
    let mut last = 0u64;
    let mut i = 0;
    while i < 3 {
        let key: usize = kani::any(); kani::assume(key < 3);
        let version: u64 = kani::any();
        let status = any_code();
        if i < n_kv { kani::assume(version > last && version <= vmax); last = version; }
        spec[i] = SpecKv { key, version, status };
        kvs.push(KeyValueMutation { key: key_string(key), value: String::new(), version, status: DeletionStatusMutation::try_from(status).unwrap() });
        i += 1;
    }
    unsafe { kvs.set_len(n_kv); }
    let max: u64 = kani::any();
    kani::assume(max <= vmax);
    // what the wire decoder admits: strictly increasing versions; max = last version unless a SetMaxVersion op
    // follows (only an honest serializer never emits one after key-values)
    if honest_max && n_kv > 0 { kani::assume(max == last); }
    let from: u64 = kani::any(); let gc: u64 = kani::any();
    kani::assume(from <= vmax && gc <= vmax);
    (NodeDelta { chitchat_id: xid(), from_version_excluded: from, last_gc_version: gc, key_values: kvs, max_version: max }, spec, max)
}
fn c04_any_delta(rmask: u8, n_kv: usize, vmax: u64) {
    let (mut r, rc) = shaped_state(rmask, vmax);
    let (nd, _spec, dmax) = any_node_delta(n_kv, vmax, true);
    let (from, gc) = (nd.from_version_excluded, nd.last_gc_version);
    let st = r.apply_delta(nd, T0);
    let after = snapshot(&r);
    kani::cover!(st == DeltaStatus::ApplyAfterReset, "reset taken");
    kani::cover!(st == DeltaStatus::Apply, "incremental");
    kani::cover!(st == DeltaStatus::Reject, "rejected");
    assert!((after.gc, after.max) >= (rc.gc, rc.max), "C04: frontier decreased");
    let mut k = 0;
    while k < 3 {
        if rc.e[k].present {
            let wiped = st == DeltaStatus::ApplyAfterReset && after.gc > rc.gc;
            assert!(wiped || (after.e[k].present && after.e[k].version >= rc.e[k].version), "C04: a key's version decreased or the key vanished without a strictly higher watermark");
        }
        k += 1;
    }
    if st == DeltaStatus::Reject {
        assert!(after.gc == rc.gc && after.max == rc.max, "C04: rejected delta changed the frontier");
        let mut k = 0;
        while k < 3 { assert!(after.e[k].present == rc.e[k].present && after.e[k].version == rc.e[k].version, "C04: rejected delta changed a key"); k += 1; }
    }
    if st == DeltaStatus::ApplyAfterReset { assert!(from == 0 && gc > rc.gc && gc > rc.max && after.gc == gc, "C04: reset without a strictly higher watermark"); }
    std::mem::forget(r);
}

// ---------------------------------------------------------------------------------------------
// C04(a) / C06 building block: local write API allocates max+1, same-value set is a no-op
fn c04_local_write(mask: u8, vmax: u64) {
    let (mut ns, c) = shaped_state(mask, vmax);
    kani::assume(c.gc <= c.max);
    let k: usize = kani::any(); kani::assume(k < 3);
    let op: u8 = kani::any(); kani::assume(op < 4);
    let same_value: bool = kani::any();
    let value = if same_value { "" } else { "v" };
    let now = any_instant(1_000);
    vtime::set_now(now);
    match op {
        0 => ns.set(KEYS[k], value),
        1 => ns.set_with_ttl(KEYS[k], value),
        2 => ns.delete(KEYS[k]),
        _ => ns.delete_after_ttl(KEYS[k]),
    }
    let a = snapshot(&ns);
    let before = c.e[k];
    let noop_expected = match op {
        0 => before.present && before.status == 0 && same_value,
        1 => before.present && before.status == 2 && same_value,
        _ => !before.present,
    };
    kani::cover!(noop_expected, "no-op write");
    kani::cover!(!noop_expected && op == 2, "effective delete");
    if noop_expected {
        assert!(a.max == c.max && a.e[k].present == before.present && a.e[k].version == before.version && a.e[k].status == before.status, "C04: ineffective write changed the state");
    } else {
        assert!(a.max == c.max + 1, "C04: effective write did not allocate max_version + 1");
        assert!(a.e[k].present && a.e[k].version == c.max + 1, "C04: written key does not carry the fresh version");
        let want_status = match op { 0 => 0, 1 => 2, 2 => 1, _ => 2 };
        assert!(a.e[k].status == want_status, "C04/C06: wrong deletion status after write");
    }
    assert!(a.gc == c.gc, "C04: local write moved the watermark");
    let mut j = 0;
    while j < 3 { if j != k { assert!(a.e[j].present == c.e[j].present && a.e[j].version == c.e[j].version && a.e[j].status == c.e[j].status, "C04: write touched another key"); } j += 1; }
    std::mem::forget(ns);
}

// ---------------------------------------------------------------------------------------------
// SENDER, T-split (DESIGN.md section 3). Piece 1: the per-member decision of the real
// compute_partial_delta_respecting_mtu (skip scheduled / not ahead, reset decision, start version), with
// SortedStaleNodes::offer replaced by a recorder so that the serialization loop sees no stale node.
static mut OFFERED: [(u8, u64, u64, u64); 4] = [(0, 0, 0, 0); 4];
static mut OFFERED_N: usize = 0;
fn rec_offer<'a>(_s: &mut SortedStaleNodes<'a>, chitchat_id: &'a ChitchatId, node_state: &'a NodeState, from_version_excluded: u64) where 'a: 'a {
    unsafe {
        if OFFERED_N >= 4 { kani::assume(false); }
        OFFERED[OFFERED_N] = (chitchat_id.node_id.as_bytes()[0], from_version_excluded, node_state.last_gc_version, node_state.max_version);
        OFFERED_N += 1;
    }
}
fn mk_cluster_state() -> ClusterState {
    let (tx, rx) = watch::channel(HashSet::default());
    std::mem::forget(tx);
    ClusterState::with_seed_addrs(rx)
}
fn snd_decision(two_members: bool) {
    unsafe { OFFERED_N = 0; }
    rec::rec_reset(usize::MAX);
    let mut cs = mk_cluster_state();
    let (xg, xm): (u64, u64) = (kani::any(), kani::any());
    let (yg, ym): (u64, u64) = (kani::any(), kani::any());
    cs.node_states.insert(xid(), bare_state(xg, xm));
    if two_members { let mut y = empty_state_for(yid()); y.last_gc_version = yg; y.max_version = ym; cs.node_states.insert(yid(), y); }
    let mut digest = Digest::default();
    let x_in_digest: bool = kani::any();
    let y_in_digest: bool = kani::any();
    let (dxg, dxm): (u64, u64) = (kani::any(), kani::any());
    let (dyg, dym): (u64, u64) = (kani::any(), kani::any());
    if x_in_digest { digest.node_digests.insert(xid(), NodeDigest { heartbeat: Heartbeat(kani::any()), last_gc_version: dxg, max_version: dxm }); }
    if two_members && y_in_digest { digest.node_digests.insert(yid(), NodeDigest { heartbeat: Heartbeat(kani::any()), last_gc_version: dyg, max_version: dym }); }
    let (x, y) = (xid(), yid());
    let mut sched: HashSet<&ChitchatId> = HashSet::default();
    let x_sched: bool = kani::any();
    let y_sched: bool = kani::any();
    if x_sched { sched.insert(&x); }
    if two_members && y_sched { sched.insert(&y); }
    let d = cs.compute_partial_delta_respecting_mtu(&digest, 65_000, &sched);
    std::mem::forget(d);
    // expected offers, in member (key) order: x < y
    let (exg, exm) = if x_in_digest { (dxg, dxm) } else { (0, 0) };
    let (eyg, eym) = if y_in_digest { (dyg, dym) } else { (0, 0) };
    let x_off = !x_sched && xm > exm;
    let y_off = two_members && !y_sched && ym > eym;
    let x_from = if exg < xg && exm < xg { 0 } else { exm };
    let y_from = if eyg < yg && eym < yg { 0 } else { eym };
    let n = unsafe { OFFERED_N };
    let off = unsafe { OFFERED };
    kani::cover!(x_off && x_from == 0 && exm > 0, "reset decided for a known member");
    kani::cover!(x_sched, "member scheduled for deletion");
    kani::cover!(!x_in_digest && x_off, "member unknown to the peer");
    assert!(n <= (x_off as usize) + (y_off as usize), "C05/C07/C12: a member that is scheduled for deletion or not ahead of the digest was offered");
    assert!(n >= (x_off as usize) + (y_off as usize), "C01/C14: a member that is ahead of the digest (and not scheduled for deletion) was not offered");
    let mut i = 0;
    if x_off {
        assert!(off[i].0 == b'x' && off[i].2 == xg && off[i].3 == xm, "C03/C07/C14: offered member / watermark / max version differ from the sender's copy");
        assert!(off[i].1 <= x_from, "C02/C14: start version above the reference (a reset was missed: entries in between are never sent)");
        assert!(off[i].1 >= x_from, "C01/C14: start version below the reference (restart from 0 although the receiver will not wipe: refused when truncated)");
        i += 1;
    }
    if y_off {
        assert!(off[i].0 == b'y' && off[i].2 == yg && off[i].3 == ym, "C03/C07/C14: offered member / watermark / max version differ from the sender's copy (second member)");
        assert!(off[i].1 <= y_from, "C02/C14: start version above the reference (second member)");
        assert!(off[i].1 >= y_from, "C01/C14: start version below the reference (second member)");
    }
    std::mem::forget(cs); std::mem::forget(digest); std::mem::forget(sched);
}

// Piece 2: real SortedStaleNodes::offer / staleness_score: a member is kept iff it is ahead of the start version.
fn snd_offer(mask: u8, vmax: u64) {
    unsafe { crate::vstd::randmodel::SINGLE_MEMBER = true; }
    let (s, c) = shaped_state(mask, vmax);
    let id = xid();
    let from: u64 = kani::any();
    let mut sn = SortedStaleNodes::default();
    sn.offer(&id, &s, from);
    let mut n = 0;
    for x in sn.into_iter() { n += 1; assert!(x.from_version_excluded == from, "C07: stale node carries a different start version"); }
    assert!(n == (c.max > from) as usize, "C01/C14: a member ahead of the start version must be offered exactly once, others never");
    std::mem::forget(s);
}

// Piece 3: real StaleNode::stale_key_values: exactly the entries above the start version, ascending.
fn snd_content(mask: u8, vmax: u64) {
    let (s, c) = shaped_state(mask, vmax);
    let id = xid();
    let from: u64 = kani::any();
    let expect = spec_delta(&Copy3 { e: c.e, gc: 0, max: u64::MAX }, 0, from, 4);
    let sn = StaleNode { chitchat_id: &id, node_state: &s, from_version_excluded: from };
    let mut i = 0;
    for (k, vv) in sn.stale_key_values() {
        assert!(i < expect.n_stale, "C07: entry at or below the start version (or a duplicate) in the delta content");
        assert!(k.len() == 1 && (k.as_bytes()[0] - b'a') as usize == expect.kv[i].key && vv.version == expect.kv[i].version && code_of(&vv.status) == expect.kv[i].status, "C03/C07: delta content differs from the sender's entries in version order");
        i += 1;
    }
    kani::cover!(expect.n_stale == 2, "two stale entries");
    assert!(i == expect.n_stale, "C02/C07: a stale entry is missing from the delta content (gap)");
    std::mem::forget(s);
}

// Piece 4 (heavy, thorough tier): the whole real compute_partial_delta_respecting_mtu with the serializer
// recorder (h_delta.rs): recorded ops == reference model, for every truncation point.
fn snd_full(mask: u8, vmax: u64) { snd_full_pat(mask, vmax, u32::MAX) }
/// `pattern` = u32::MAX: truncation point symbolic (prefix model, 0..=5 accepted calls); otherwise the acceptance
/// pattern of the serializer calls is a shape (bit i = i-th call accepted), which also covers "a large op does not
/// fit but a later smaller one does"
fn snd_full_pat(mask: u8, vmax: u64, pattern: u32) {
    unsafe { crate::vstd::randmodel::SINGLE_MEMBER = true; }
    let cut: usize = if pattern == u32::MAX { let c: usize = kani::any(); kani::assume(c <= 5); c } else {
        // accepted prefix length of the reference: header, then key-values while consecutive calls are accepted
        if pattern & 1 == 0 { 0 } else { let mut k = 1usize; while k < 6 && (pattern >> k) & 1 == 1 { k += 1; } k }
    };
    if pattern == u32::MAX { rec::rec_reset(cut); } else { rec::rec_reset_pattern(pattern); }
    let (s, c) = shaped_state(mask, vmax);
    let (dgc, dmax): (u64, u64) = (kani::any(), kani::any());
    let mut cs = mk_cluster_state();
    cs.node_states.insert(xid(), s);
    let mut digest = Digest::default();
    digest.node_digests.insert(xid(), NodeDigest { heartbeat: Heartbeat(0), last_gc_version: dgc, max_version: dmax });
    let sched: HashSet<&ChitchatId> = HashSet::default();
    let d = cs.compute_partial_delta_respecting_mtu(&digest, 65_000, &sched);
    std::mem::forget(d);
    let e = spec_delta(&c, dgc, dmax, cut);
    let n = unsafe { rec::REC_N };
    let ops = unsafe { rec::REC };
    kani::cover!(e.present && e.n_kv < e.n_stale, "truncated between key-values");
    kani::cover!(e.present && e.n_stale == 0 && e.max > 0, "SetMaxVersion for an empty tail");
    if !e.present {
        if c.max > dmax { assert!(n == 0, "C03/C07: ops emitted although the member header was refused (they would be attributed to another member)"); }
        else { assert!(n == 0, "C05/C07: ops emitted although the sender is not ahead"); }
    }
    else {
        assert!(n >= 1 && ops[0].kind == rec::REC_NODE && ops[0].id0 == b'x' && ops[0].gc == e.gc && ops[0].from == e.from, "C07/C14: wrong member header");
        if e.n_stale == 0 {
            if e.max > 0 { assert!(n == 2 && ops[1].kind == rec::REC_SETMAX && ops[1].version == c.max, "C01/C03: empty tail must carry SetMaxVersion(sender max)"); }
            else { assert!(n == 1, "C07: op after a refused SetMaxVersion"); }
        } else {
            assert!(n == 1 + e.n_kv, "C07: number of key-value ops differs from the version-ordered prefix that fits");
            let mut i = 0;
            while i < 3 {
                if i < e.n_kv { assert!(ops[1 + i].kind == rec::REC_KV && ops[1 + i].key0 == b'a' + e.kv[i].key as u8 && ops[1 + i].version == e.kv[i].version && ops[1 + i].status == e.kv[i].status, "C07/C03: key-value op differs from the sender's entry in version order"); }
                i += 1;
            }
        }
    }
    std::mem::forget(cs); std::mem::forget(digest); std::mem::forget(sched);
}

// ---------------------------------------------------------------------------------------------
// scalar receiver decision at full width (no keys): C14's agreement on all u64 frontiers
fn c14_scalar() {
    select(P_C14);
    let s = Copy3 { e: [E { present: false, version: 0, status: 0 }; 3], gc: kani::any(), max: kani::any() };
    let mut r = bare_state(kani::any(), kani::any());
    let rc = snapshot(&r);
    let accepted: usize = kani::any();
    kani::assume(accepted <= 2);
    let d = spec_delta(&s, rc.gc, rc.max, accepted);
    if d.present {
        let header_only = d.max == 0;
        let st = r.apply_delta(node_delta_of(&d), T0);
        let after = snapshot(&r);
        kani::cover!(st == DeltaStatus::ApplyAfterReset, "reset taken");
        kani::cover!(rc.gc > rc.max && st == DeltaStatus::Apply, "mid-reset receiver, incremental");
        if !header_only {
            assert!(st != DeltaStatus::Reject, "C01/C14: delta computed from the receiver's own digest is refused");
            assert!((st == DeltaStatus::ApplyAfterReset) == (rc.max < s.gc && rc.gc < s.gc), "C14: reset iff both frontier components are below the sender's watermark");
            assert!((after.gc, after.max) > (rc.gc, rc.max), "C01/C14: no strict progress");
            assert!(after.max == s.max, "C01: empty-tail delta must bring the copy to the sender's max version");
        } else {
            assert!((after.gc, after.max) >= (rc.gc, rc.max), "C04: frontier decreased");
        }
    } else { assert!(s.max <= rc.max || accepted == 0, "C14: sender ahead but nothing offered"); }
    std::mem::forget(r);
}

// ---------------------------------------------------------------------------------------------
// C20 / C04: ClusterState::apply_delta: returned flag == "some copy was reset"; runtime assert :602 unreachable
fn c20_cluster_apply(rmask: u8, vmax: u64, known: bool) {
    let mut cs = mk_cluster_state();
    let c = any_copy3(Some(rmask), vmax);
    if known { cs.node_states.insert(xid(), build_state(&c, T0)); }
    let s = any_copy3(None, vmax);
    let accepted: usize = kani::any();
    kani::assume(accepted <= 4);
    let d = spec_delta(&s, c.gc, c.max, accepted);
    let mut delta = Delta::default();
    if d.present { delta.node_deltas.push(node_delta_of(&d)); }
    let flag = cs.apply_delta(delta);
    let expect_reset = known && d.present && c.gc < d.gc && c.max < d.gc && d.from == 0;
    kani::cover!(flag, "reset reported");
    kani::cover!(d.present && !flag && known, "incremental or rejected");
    assert!(flag == expect_reset, "C20: reset flag differs from 'a copy was wiped and restarted from version 0'");
    if known {
        let a = snapshot(cs.node_states.get(&xid()).unwrap());
        if flag { assert!(a.gc == d.gc && a.gc > c.gc, "C20: reset reported without a strictly higher watermark"); }
        assert!((a.gc, a.max) >= (c.gc, c.max), "C04: frontier decreased");
    } else { assert!(cs.node_states.len() == 0, "C03: delta about an unknown member created a copy"); }
    std::mem::forget(cs);
}

// ---------------------------------------------------------------------------------------------
// C20: what NodeState::apply_delta reports per section: ApplyAfterReset iff the copy (any shape, empty and just created included)
// is behind a collection it has not seen and the section restarts from version 0; then nothing from before the reset survives
fn c20_status(rmask: u8, n_kv: usize, vmax: u64) {
    let (mut r, rc) = shaped_state(rmask, vmax);
    let (nd, spec, _dmax) = any_node_delta(n_kv, vmax, true);
    let (from, gc) = (nd.from_version_excluded, nd.last_gc_version);
    let st = r.apply_delta(nd, T0);
    let after = snapshot(&r);
    let behind_gc = gc > rc.gc && gc > rc.max;
    // oracle independent of the coded reset condition: only a reset moves a copy's watermark inside apply_delta
    let was_reset = after.gc != rc.gc;
    kani::cover!(st == DeltaStatus::ApplyAfterReset, "reset taken");
    kani::cover!(st == DeltaStatus::Apply, "incremental");
    kani::cover!(st == DeltaStatus::Reject && behind_gc, "behind a collection but the section does not restart from 0: rejected");
    assert!((st == DeltaStatus::ApplyAfterReset) == was_reset, "C20: a section is reported as a reset iff the copy was actually reset (wiped and restarted at the sender's watermark)");
    if st == DeltaStatus::ApplyAfterReset { assert!(from == 0, "C20/C14: a reset copy must be rebuilt from version 0"); }
    if st == DeltaStatus::ApplyAfterReset {
        assert!(after.gc == gc, "C20: a reset copy restarts at the sender's watermark");
        let mut k = 0;
        while k < 3 {
            if after.e[k].present {
                let mut supplied = false;
                let mut i = 0;
                while i < 3 { if i < n_kv && spec[i].key == k && spec[i].version == after.e[k].version { supplied = true; } i += 1; }
                assert!(supplied, "C20: a reset copy kept an entry from before the reset");
            }
            k += 1;
        }
    }
    std::mem::forget(r);
}

// ---------------------------------------------------------------------------------------------
// C20: aggregation of the reset flag over the members of one delta. NodeState::apply_delta is replaced by its contract (returns ANY
// status; which status a section gets is decided on the real function by c20_scalar_* / c20_apply_*); real ClusterState::apply_delta.
static mut NODE_APPLIES: u32 = 0;
static mut NODE_RESETS: u32 = 0;
fn stub_node_apply(_ns: &mut NodeState, nd: NodeDelta, _now: Instant) -> DeltaStatus {
    std::mem::forget(nd);
    let k: u8 = kani::any();
    kani::assume(k < 3);
    unsafe { NODE_APPLIES += 1; if k == 2 { NODE_RESETS += 1; } }
    match k { 0 => DeltaStatus::Reject, 1 => DeltaStatus::Apply, _ => DeltaStatus::ApplyAfterReset }
}
fn zid() -> ChitchatId { ChitchatId::new("z".to_string(), 0, ([127, 0, 0, 1], 3).into()) }
/// `sections` members in the delta (x, y, z in this order); bit i of `unknown` = member i has no copy on the receiver
fn c20_aggregate(sections: usize, unknown: u8) {
    unsafe { NODE_APPLIES = 0; NODE_RESETS = 0; }
    let mut cs = mk_cluster_state();
    let mut delta = Delta::default();
    delta.node_deltas.reserve(3);
    let mut known = 0u32;
    let mut i = 0;
    while i < sections {
        let id = if i == 0 { xid() } else if i == 1 { yid() } else { zid() };
        if unknown & (1 << i) == 0 { cs.node_states.insert(id.clone(), empty_state_for(id.clone())); known += 1; }
        delta.node_deltas.push(NodeDelta { chitchat_id: id, from_version_excluded: 0, last_gc_version: 0, key_values: Vec::new(), max_version: 0 });
        i += 1;
    }
    let flag = cs.apply_delta(delta);
    let (applies, resets) = unsafe { (NODE_APPLIES, NODE_RESETS) };
    kani::cover!(resets >= 2, "two copies reset by one message");
    kani::cover!(resets == 1 && applies >= 2, "one of several copies reset");
    kani::cover!(applies == known && known >= 2, "every section about a known member applied");
    assert!(flag == (resets > 0), "C20: reset flag must be true iff at least one copy of the message was reset (however many, in whatever position)");
    assert!(cs.node_states.len() == known as usize, "C03: delta about an unknown member created a copy");
    std::mem::forget(cs);
}
macro_rules! h_c20_agg { ($name:ident, $unw:expr, $body:expr) => {
    #[kani::proof]
    #[kani::unwind($unw)]
    #[kani::stub(crate::listener::Listeners::trigger_event, noop_trigger)]
    #[kani::stub(crate::state::NodeState::apply_delta, stub_node_apply)]
    fn $name() { $body }
}}

// ---------------------------------------------------------------------------------------------
// contract stub of the delta computation for message-level budget queries (C07): returns a delta whose
// serialized length is ANY value in 1..=mtu (what the ser_ub_* / snd_full queries establish for the real one)
pub(crate) static mut LAST_MTU: usize = 0;
pub(crate) fn contract_partial_delta(_cs: &ClusterState, _digest: &Digest, mtu: usize, _sched: &HashSet<&ChitchatId>) -> Delta {
    unsafe { LAST_MTU = mtu; }
    let len: usize = kani::any();
    kani::assume(len >= 1 && len <= mtu);
    rec::delta_with_len(len)
}

// ---------------------------------------------------------------------------------------------
/// C11 (integer part): NodeState::try_set_heartbeat on a copy whose stored heartbeat is any u64: it reports fresh evidence iff
/// the value is strictly higher than a known (non-initial) one; equal / lower / replayed values are neither evidence nor stored
fn c11_hb_kernel() {
    let mut ns = empty_state();
    let (h0, h1, h2): (u64, u64, u64) = (kani::any(), kani::any(), kani::any());
    let first = ns.try_set_heartbeat(Heartbeat(h0));
    assert!(!first, "C11: the first heartbeat observed for a member counted as liveness evidence");
    let second = ns.try_set_heartbeat(Heartbeat(h1));
    let stored1 = ns.heartbeat().0;
    let third = ns.try_set_heartbeat(Heartbeat(h2));
    let stored2 = ns.heartbeat().0;
    kani::cover!(second && third, "two fresh heartbeats in a row");
    kani::cover!(h0 > 0 && h1 < h0 && !second, "lower heartbeat after a known one");
    assert!(second == (h0 != 0 && h1 > h0), "C11: a heartbeat counts as fresh evidence iff it is strictly higher than a known non-initial one (equal, lower, replayed values never do)");
    assert!(stored1 == if h0 == 0 || h1 > h0 { h1 } else { h0 }, "C03/C11: stored heartbeat must only rise, to the reported value");
    assert!(third == (stored1 != 0 && h2 > stored1), "C11: a heartbeat counts as fresh evidence iff it is strictly higher than the highest one seen");
    assert!(stored2 == if stored1 == 0 || h2 > stored1 { h2 } else { stored1 }, "C03/C11: stored heartbeat must only rise, to the reported value");
    std::mem::forget(ns);
}
// ---------------------------------------------------------------------------------------------
// harness declaration macros (instances are generated per run by /verif/vlib/plan.py)
macro_rules! h_plain { ($name:ident, $unw:expr, $body:expr) => {
    #[kani::proof]
    #[kani::unwind($unw)]
    #[kani::stub(crate::listener::Listeners::trigger_event, noop_trigger)]
    fn $name() { $body }
}}
macro_rules! h_rec { ($name:ident, $unw:expr, $body:expr) => {
    #[kani::proof]
    #[kani::unwind($unw)]
    #[kani::stub(crate::listener::Listeners::trigger_event, noop_trigger)]
    #[kani::stub(crate::delta::DeltaSerializer::with_mtu, crate::delta::verif_delta::rec_with_mtu)]
    #[kani::stub(crate::delta::DeltaSerializer::try_add_node, crate::delta::verif_delta::rec_try_add_node)]
    #[kani::stub(crate::delta::DeltaSerializer::try_add_kv, crate::delta::verif_delta::rec_try_add_kv)]
    #[kani::stub(crate::delta::DeltaSerializer::try_set_max_version, crate::delta::verif_delta::rec_try_set_max_version)]
    #[kani::stub(crate::delta::DeltaSerializer::finish, crate::delta::verif_delta::rec_finish)]
    fn $name() { $body }
}}
macro_rules! h_rec_offer { ($name:ident, $unw:expr, $body:expr) => {
    #[kani::proof]
    #[kani::unwind($unw)]
    #[kani::stub(crate::listener::Listeners::trigger_event, noop_trigger)]
    #[kani::stub(crate::state::SortedStaleNodes::offer, rec_offer)]
    #[kani::stub(crate::delta::DeltaSerializer::with_mtu, crate::delta::verif_delta::rec_with_mtu)]
    #[kani::stub(crate::delta::DeltaSerializer::try_add_node, crate::delta::verif_delta::rec_try_add_node)]
    #[kani::stub(crate::delta::DeltaSerializer::try_add_kv, crate::delta::verif_delta::rec_try_add_kv)]
    #[kani::stub(crate::delta::DeltaSerializer::try_set_max_version, crate::delta::verif_delta::rec_try_set_max_version)]
    #[kani::stub(crate::delta::DeltaSerializer::finish, crate::delta::verif_delta::rec_finish)]
    fn $name() { $body }
}}

// ---------------------------------------------------------------------------------------------
// S2: tombstone GC on a copy at an arbitrary instant keeps I1..I4 (C02/C03) and the frontier monotone (C04)
fn gc_step(mask: u8, vmax: u64) {
    let c = any_copy3(Some(mask), vmax);
    let l = any_ledger(vmax);
    kani::assume(inv_all(&l, &c));
    // tombstone instants symbolic per key
    let mut ns = empty_state();
    let mut ts = [T0; 3];
    let mut i = 0;
    while i < 3 {
        if c.e[i].present {
            ts[i] = any_instant(1_000);
            ns.key_values.insert(KEYS[i].to_string(), VersionedValue { value: String::new(), version: c.e[i].version, status: status_of(c.e[i].status, ts[i]) });
        }
        i += 1;
    }
    ns.max_version = c.max; ns.last_gc_version = c.gc;
    let now = any_instant(3_000);
    vtime::set_now(now);
    let grace = any_duration(1_000);
    ns.gc_keys_marked_for_deletion(grace);
    let a = snapshot(&ns);
    // reference: exactly the marked entries at least one grace period old go; watermark = max(old, highest collected)
    let mut exp_gc = c.gc;
    let mut k = 0;
    while k < 3 {
        if c.e[k].present {
            let collect = c.e[k].status != 0 && now >= ts[k] + grace;
            kani::cover!(collect && now == ts[k] + grace, "entry collected exactly at the grace boundary");
            if want(P_C06) || want(P_C02) { assert!(a.e[k].present == !collect, "C02/C06: GC removed a live/young entry or kept an expired tombstone"); }
            if collect && c.e[k].version > exp_gc { exp_gc = c.e[k].version; }
            if !collect && (want(P_C06) || want(P_C04)) { assert!(a.e[k].version == c.e[k].version && a.e[k].status == c.e[k].status, "C04/C06: GC altered a surviving entry"); }
        } else { assert!(!a.e[k].present, "C02/C03/C04/C06: GC created an entry"); }
        k += 1;
    }
    if want(P_C06) || want(P_C02) { assert!(a.gc == exp_gc, "C06/C02: GC watermark is not max(previous watermark, highest collected version)"); }
    if want(P_C04) { assert!(a.gc >= c.gc && a.max == c.max, "C04: GC lowered the watermark or moved max_version"); }
    if want(P_C03) { assert!(inv_i1(&l, &a) && inv_i2(&l, &a), "C03: GC broke integrity"); }
    if want(P_C02) { assert!(inv_i3(&l, &a) && inv_i4(&l, &a), "C02: copy not exact up to its frontier after GC"); }
    std::mem::forget(ns);
}

// ---------------------------------------------------------------------------------------------
// C06: differential against a reference versioned map over prefix-related keys (incl. the empty key)
const K6: [&str; 4] = ["", "a", "ab", "b"];          // sorted: iteration order == index order
const V6: [&str; 3] = ["", "x", "y"];
#[derive(Clone, Copy)]
struct M6 { present: bool, version: u64, status: u8, t: Instant, val: usize }
fn k6_is_prefix(p: usize, k: usize) -> bool { p == 0 || p == k || (p == 1 && k == 2) }
fn m6_visible(m: &M6) -> bool { m.present && m.status != 1 }
fn any_val() -> usize { let v: usize = kani::any(); kani::assume(v < 3); v }

/// readset 0: point reads and counts; 1: full iterations; 2+p: prefix iteration for prefix K6[p]
fn c06_check_reads(ns: &NodeState, m: &[M6; 4], readset: u8) {
    if readset == 0 {
        let mut k = 0;
        while k < 4 {
            let vv = ns.get_versioned(K6[k]);
            assert!(vv.is_some() == m[k].present, "C06: get_versioned presence differs from the model");
            if let Some(vv) = vv { assert!(vv.version == m[k].version && code_of(&vv.status) == m[k].status && vv.value == V6[m[k].val], "C06: stored entry differs from the model"); }
            let g = ns.get(K6[k]);
            assert!(g.is_some() == m6_visible(&m[k]), "C06: get() visibility differs from the model (deleted keys are invisible at once, TTL keys stay visible)");
            if let Some(v) = g { assert!(v == V6[m[k].val], "C06: get() returned another value"); }
            assert!(ns.contains_key(K6[k]) == m6_visible(&m[k]), "C06: contains_key differs from the model");
            k += 1;
        }
        let mut n_vis = 0;
        let mut j = 0;
        while j < 4 { if m6_visible(&m[j]) { n_vis += 1; } j += 1; }
        assert!(ns.num_key_values() == n_vis, "C06: num_key_values differs from the model");
    } else if readset == 1 {
        let mut j = 0;
        for (key, val) in ns.key_values() {
            while j < 4 && !m6_visible(&m[j]) { j += 1; }
            assert!(j < 4 && key == K6[j] && val == V6[m[j].val], "C06: key_values() yields something the model does not predict at this position");
            j += 1;
        }
        while j < 4 && !m6_visible(&m[j]) { j += 1; }
        assert!(j == 4, "C06: key_values() misses a visible key");
        let mut j = 0;
        for (key, vv) in ns.key_values_including_deleted() {
            while j < 4 && !m[j].present { j += 1; }
            assert!(j < 4 && key == K6[j] && vv.version == m[j].version, "C06: key_values_including_deleted() differs from the model");
            j += 1;
        }
        while j < 4 && !m[j].present { j += 1; }
        assert!(j == 4, "C06: key_values_including_deleted() misses an entry");
    } else {
        let p = (readset - 2) as usize;
        let mut j = 0;
        for (key, vv) in ns.iter_prefix(K6[p]) {
            while j < 4 && !(m6_visible(&m[j]) && k6_is_prefix(p, j)) { j += 1; }
            assert!(j < 4 && key == K6[j] && vv.version == m[j].version, "C06: iter_prefix yields a key the model does not predict (wrong prefix, invisible, or out of order)");
            j += 1;
        }
        while j < 4 && !(m6_visible(&m[j]) && k6_is_prefix(p, j)) { j += 1; }
        assert!(j == 4, "C06: iter_prefix misses a visible key with that prefix");
    }
}

/// one operation (concrete kind `op` on concrete key index `k`, everything else symbolic) from an arbitrary
/// well-formed state, then the reads of `readset` compared with the reference map
fn c06_model(mask: u8, op: u8, k: usize, readset: u8) {
    let vmax: u64 = 1_000;
    let mut ns = empty_state();
    let mut m = [M6 { present: false, version: 0, status: 0, t: T0, val: 0 }; 4];
    let mut maxv = 0u64;
    let mut i = 0;
    while i < 4 {
        if mask & (1 << i) != 0 {
            let e = M6 { present: true, version: kani::any(), status: any_code(), t: any_instant(1_000), val: any_val() };
            kani::assume(e.version >= 1 && e.version <= vmax);
            let mut j = 0;
            while j < i { if m[j].present { kani::assume(m[j].version != e.version); } j += 1; }
            // a tombstone carries the empty value (what delete() writes and what replication copies)
            if e.status == 1 { kani::assume(e.val == 0); }
            if e.version > maxv { maxv = e.version; }
            m[i] = e;
            ns.key_values.insert(K6[i].to_string(), VersionedValue { value: V6[e.val].to_string(), version: e.version, status: status_of(e.status, e.t) });
        }
        i += 1;
    }
    let mut max: u64 = kani::any(); kani::assume(max >= maxv && max <= vmax);
    let mut gc: u64 = kani::any(); kani::assume(gc <= max);
    ns.max_version = max; ns.last_gc_version = gc;
    let now = any_instant(4_000);
    vtime::set_now(now);
    let v = any_val();
    match op {
        0 => { ns.set(K6[k], V6[v]); if !(m[k].present && m[k].status == 0 && m[k].val == v) { max += 1; m[k] = M6 { present: true, version: max, status: 0, t: T0, val: v }; } else { kani::cover!(true, "same-value set is a no-op"); } }
        1 => { ns.set_with_ttl(K6[k], V6[v]); if !(m[k].present && m[k].status == 2 && m[k].val == v) { max += 1; m[k] = M6 { present: true, version: max, status: 2, t: now, val: v }; } }
        2 => { ns.delete(K6[k]); if m[k].present { max += 1; m[k] = M6 { present: true, version: max, status: 1, t: now, val: 0 }; } }
        3 => { ns.delete_after_ttl(K6[k]); if m[k].present { max += 1; m[k] = M6 { present: true, version: max, status: 2, t: now, val: m[k].val }; } }
        _ => {
            let grace = any_duration(2_000);
            ns.gc_keys_marked_for_deletion(grace);
            let mut j = 0;
            while j < 4 {
                if m[j].present && m[j].status != 0 && now >= m[j].t + grace {
                    kani::cover!(now == m[j].t + grace, "collected exactly at the grace boundary");
                    if m[j].version > gc { gc = m[j].version; }
                    m[j].present = false;
                }
                j += 1;
            }
        }
    }
    if readset == 0 {
        assert!(ns.max_version() == max, "C06/C04: max_version differs from the model (effective writes take max+1, others nothing)");
        assert!(ns.last_gc_version() == gc, "C06: GC watermark differs from the model");
    }
    c06_check_reads(&ns, &m, readset);
    std::mem::forget(ns);
}

// ---------------------------------------------------------------------------------------------
// C20: ClusterState::apply_delta over key-less sections with arbitrary headers: the returned flag is exactly
// "some copy was wiped and restarted from version 0" (aggregated over the sections of one message)
fn c20_scalar(sections: usize) {
    let mut cs = mk_cluster_state();
    let (xg, xm): (u64, u64) = (kani::any(), kani::any());
    let (yg, ym): (u64, u64) = (kani::any(), kani::any());
    cs.node_states.insert(xid(), bare_state(xg, xm));
    if sections == 2 { let mut y = empty_state_for(yid()); y.last_gc_version = yg; y.max_version = ym; cs.node_states.insert(yid(), y); }
    let (xf, xdg, xdm): (u64, u64, u64) = (kani::any(), kani::any(), kani::any());
    let (yf, ydg, ydm): (u64, u64, u64) = (kani::any(), kani::any(), kani::any());
    let mut delta = Delta::default();
    delta.node_deltas.reserve(2);
    delta.node_deltas.push(NodeDelta { chitchat_id: xid(), from_version_excluded: xf, last_gc_version: xdg, key_values: Vec::new(), max_version: xdm });
    if sections == 2 { delta.node_deltas.push(NodeDelta { chitchat_id: yid(), from_version_excluded: yf, last_gc_version: ydg, key_values: Vec::new(), max_version: ydm }); }
    let flag = cs.apply_delta(delta);
    let x_reset = xf <= xm && !(xdg <= xg || xdg <= xm) && xf == 0;
    let y_reset = sections == 2 && yf <= ym && !(ydg <= yg || ydg <= ym) && yf == 0;
    kani::cover!(x_reset && y_reset, "two copies reset by one message");
    kani::cover!(!x_reset && !y_reset, "no reset");
    assert!(flag == (x_reset || y_reset), "C20: reset flag must be true iff at least one copy was wiped and restarted from version 0");
    let xa = snapshot(cs.node_states.get(&xid()).unwrap());
    if x_reset { assert!(xa.gc == xdg && xa.gc > xg && xa.max == xdm, "C20: reset copy must restart at the sender's watermark"); }
    assert!((xa.gc, xa.max) >= (xg, xm), "C04: frontier decreased");
    if sections == 2 {
        let ya = snapshot(cs.node_states.get(&yid()).unwrap());
        if y_reset { assert!(ya.gc == ydg && ya.gc > yg, "C20: second copy reset without a strictly higher watermark"); }
        assert!((ya.gc, ya.max) >= (yg, ym), "C04: frontier decreased (second member)");
    }
    std::mem::forget(cs);
}

// ---------------------------------------------------------------------------------------------
// C05: a delta section about a member, coming from a source that is not ahead of the copy it is applied to
// (the owner is always the most advanced copy of its own state), changes nothing at all
fn c05_not_ahead(mask: u8, n_kv: usize, vmax: u64) {
    let (mut r, rc) = shaped_state(mask, vmax);
    kani::assume(rc.gc <= rc.max);                 // an owner's watermark never exceeds its max version
    let (nd, _spec, dmax) = any_node_delta(n_kv, vmax, true);
    // honest source: its copy of us is not ahead of us, and it collected no tombstone we have not passed
    kani::assume(dmax <= rc.max && nd.last_gc_version <= rc.max);
    let st = r.apply_delta(nd, T0);
    let a = snapshot(&r);
    kani::cover!(n_kv > 0, "section with key-values");
    assert!(st == DeltaStatus::Reject, "C05: a delta that is not ahead of the owner's own state was applied");
    assert!(a.gc == rc.gc && a.max == rc.max, "C05: gossip changed the owner's frontier");
    let mut k = 0;
    while k < 3 { assert!(a.e[k].present == rc.e[k].present && a.e[k].version == rc.e[k].version && a.e[k].status == rc.e[k].status, "C05: gossip changed one of the owner's key-values"); k += 1; }
    std::mem::forget(r);
}

// ---------------------------------------------------------------------------------------------
// C09: deltas only a hostile peer can send (what the decoder admits: strictly increasing versions, max >= last)
fn c09_hostile_delta(mask: u8, n_kv: usize, vmax: u64) {
    let (mut r, rc) = shaped_state(mask, vmax);
    let (nd, _spec, _dmax) = any_node_delta(n_kv, vmax, false);
    if n_kv > 0 { kani::assume(nd.max_version >= nd.key_values[n_kv - 1].version); }
    let st = r.apply_delta(nd, T0);       // must not panic (state.rs:236)
    let a = snapshot(&r);
    kani::cover!(st == DeltaStatus::ApplyAfterReset, "reset taken");
    kani::cover!(st == DeltaStatus::Apply, "incremental");
    assert!((a.gc, a.max) >= (rc.gc, rc.max), "C09: hostile delta lowered the frontier (would trip the monotonicity assert in ClusterState::apply_delta)");
    // the copy must stay a state on which the node's own delta computation does not abort: versions pairwise
    // distinct and at most max_version (the serializer asserts strictly increasing versions per member)
    assert!(wf(&a), "C09: hostile delta left the copy with duplicate versions / a version above max_version (the node aborts the next time it computes a delta from it)");
    std::mem::forget(r);
}

// ---------------------------------------------------------------------------------------------
// C12 / C07: members scheduled for deletion are left out of the digest; everyone else is in, verbatim
fn c12_digest(two: bool) {
    let mut cs = mk_cluster_state();
    let (xg, xm, xh): (u64, u64, u64) = (kani::any(), kani::any(), kani::any());
    let mut xs = bare_state(xg, xm); xs.heartbeat = Heartbeat(xh);
    cs.node_states.insert(xid(), xs);
    if two { cs.node_states.insert(yid(), empty_state_for(yid())); }
    let (x, y) = (xid(), yid());
    let mut sched: HashSet<&ChitchatId> = HashSet::default();
    let x_sched: bool = kani::any(); let y_sched: bool = if two { kani::any() } else { false };
    if x_sched { sched.insert(&x); }
    if y_sched { sched.insert(&y); }
    let d = cs.compute_digest(&sched);
    kani::cover!(x_sched, "one member scheduled for deletion");
    assert!(d.node_digests.contains_key(&x) == !x_sched && d.node_digests.contains_key(&y) == (two && !y_sched), "C12: digest must list exactly the members not scheduled for deletion");
    if !x_sched { let nd = d.node_digests.get(&x).unwrap(); assert!(nd.heartbeat == Heartbeat(xh) && nd.last_gc_version == xg && nd.max_version == xm, "C03/C12: digest entry differs from the copy's heartbeat / watermark / max version"); }
    std::mem::forget(cs); std::mem::forget(d); std::mem::forget(sched);
}
