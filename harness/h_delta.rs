// Harnesses and cuts over chitchat/src/delta.rs (child module: private items are reachable).

/// ---- Delta recorder: assume/guarantee cut between state.rs (delta computation) and delta.rs (serializer).
/// The three `try_add_*` methods and `finish` of the real `DeltaSerializer` are replaced by a recorder of
/// plain-old-data ops in a static array; acceptance is decided by the truncation model (`REC_CUT`, harness-set).
/// Contract assumed here and checked on the real DeltaSerializer by the `ser_*` harnesses below:
///   an op is appended iff the call returns true; ops are never reordered, dropped or altered; a call that
///   returns false appends nothing.
pub(crate) const REC_CAP: usize = 8;
#[derive(Clone, Copy)]
pub(crate) struct RecOp { pub kind: u8, pub id0: u8, pub gc: u64, pub from: u64, pub key0: u8, pub version: u64, pub status: u8, pub val0: u8 }
pub(crate) const REC_NODE: u8 = 0;
pub(crate) const REC_KV: u8 = 1;
pub(crate) const REC_SETMAX: u8 = 2;
const REC_EMPTY: RecOp = RecOp { kind: 255, id0: 0, gc: 0, from: 0, key0: 0, version: 0, status: 0, val0: 0 };
pub(crate) static mut REC: [RecOp; REC_CAP] = [REC_EMPTY; REC_CAP];
pub(crate) static mut REC_N: usize = 0;
/// calls seen (accepted or not) and the index of the first refused call (usize::MAX = never refuse)
pub(crate) static mut REC_CALLS: usize = 0;
pub(crate) static mut REC_CUT: usize = usize::MAX;
pub(crate) static mut REC_FINISHED: bool = false;

pub(crate) fn rec_reset(cut: usize) { unsafe { REC_N = 0; REC_CALLS = 0; REC_CUT = cut; REC_FINISHED = false; } }
fn rec_accept() -> bool { unsafe { let c = REC_CALLS; REC_CALLS += 1; c < REC_CUT } }
fn rec_push(op: RecOp) { unsafe { if REC_N >= REC_CAP { kani::assume(false); } REC[REC_N] = op; REC_N += 1; } }
fn first_byte(s: &str) -> u8 { if s.is_empty() { 0 } else { s.as_bytes()[0] } }

pub(crate) fn rec_try_add_node(_s: &mut DeltaSerializer, chitchat_id: ChitchatId, last_gc_version: Version, from_version: Version) -> bool {
    if !rec_accept() { std::mem::forget(chitchat_id); return false; }
    rec_push(RecOp { kind: REC_NODE, id0: first_byte(&chitchat_id.node_id), gc: last_gc_version, from: from_version, ..REC_EMPTY });
    std::mem::forget(chitchat_id);
    true
}
pub(crate) fn rec_try_add_kv(_s: &mut DeltaSerializer, key: &str, versioned_value: VersionedValue) -> bool {
    if !rec_accept() { std::mem::forget(versioned_value); return false; }
    let status: DeletionStatusMutation = versioned_value.status.into();
    rec_push(RecOp { kind: REC_KV, key0: first_byte(key), version: versioned_value.version, status: status as u8, val0: first_byte(&versioned_value.value), ..REC_EMPTY });
    std::mem::forget(versioned_value);
    true
}
pub(crate) fn rec_try_set_max_version(_s: &mut DeltaSerializer, max_version: Version) -> bool {
    if !rec_accept() { return false; }
    rec_push(RecOp { kind: REC_SETMAX, version: max_version, ..REC_EMPTY });
    true
}
pub(crate) fn rec_with_mtu(mtu: usize) -> DeltaSerializer {
    assert!(mtu >= 100);
    DeltaSerializer { mtu, delta_builder: DeltaBuilder::default(), compressed_stream_writer: CompressedStreamWriter::with_block_threshold(8) }
}
pub(crate) fn rec_finish(s: DeltaSerializer) -> Delta {
    unsafe { REC_FINISHED = true; }
    std::mem::forget(s);
    Delta::default()
}

// ---------------------------------------------------------------------------------------------
// C03 (grouping) / C09 (structure-aware): the real DeltaBuilder fed any sequence of <= 3 syntactically valid ops
fn did(b: u8) -> ChitchatId { let mut s = String::with_capacity(1); s.push(b as char); ChitchatId::new(s, 0, ([127, 0, 0, 1], 1).into()) }
#[derive(Clone, Copy)]
struct OpSpec { kind: u8, id: u8, version: u64, gc: u64, from: u64 }
/// op kind concrete (shape), payload symbolic; a symbolic kind makes CBMC merge the three DeltaOp variants and
/// their heap pointers (measured: 11 GB for two ops)
fn any_op(kind: u8) -> OpSpec {
    let o = OpSpec { kind, id: kani::any(), version: kani::any(), gc: kani::any(), from: kani::any() };
    kani::assume(o.id == b'x' || o.id == b'y');
    o
}
fn mk_op(o: &OpSpec) -> DeltaOp {
    match o.kind {
        0 => DeltaOp::Node { chitchat_id: did(o.id), last_gc_version: o.gc, from_version_excluded: o.from },
        1 => DeltaOp::KeyValue(KeyValueMutation { key: "a".to_string(), value: String::new(), version: o.version, status: DeletionStatusMutation::Set }),
        _ => DeltaOp::SetMaxVersion { max_version: o.version },
    }
}
/// Returns the decoded delta for an arbitrary op sequence (None = the decoder refused it).
pub(crate) fn build_any_delta(n_ops: usize, kinds: [u8; 3], specs: &mut [OpSpec; 3]) -> Option<Delta> {
    let mut b = DeltaBuilder::default();
    let mut i = 0;
    while i < n_ops {
        specs[i] = any_op(kinds[i]);
        if b.apply_op(mk_op(&specs[i])).is_err() { std::mem::forget(b); return None; }
        i += 1;
    }
    Some(b.finish(1))
}
fn delta_grouping(n_ops: usize, k0: u8, k1: u8, k2: u8) {
    let mut specs = [OpSpec { kind: 0, id: b'x', version: 0, gc: 0, from: 0 }; 3];
    let d = build_any_delta(n_ops, [k0, k1, k2], &mut specs);
    kani::cover!(d.is_some() && n_ops >= 2, "multi-op sequence accepted");
    kani::cover!(d.is_none(), "sequence refused");
    if let Some(d) = d {
        // reference grouping: every op belongs to the last header before it
        assert!(n_ops == 0 || specs[0].kind == 0, "C03: op accepted without a preceding member header");
        let mut headers = 0; let mut i = 0;
        while i < n_ops { if specs[i].kind == 0 { headers += 1; } i += 1; }
        assert!(d.node_deltas.len() == headers, "C03: number of member sections differs from the number of headers");
        if headers == 2 { assert!(d.node_deltas[0].chitchat_id != d.node_deltas[1].chitchat_id, "C03: the same member appears twice in one delta"); }
        // walk the ops again
        let mut sec: usize = 0; let mut kvs_in_sec = 0; let mut last_version = 0u64; let mut i = 0;
        while i < n_ops {
            let o = specs[i];
            if o.kind == 0 {
                if i > 0 { assert!(d.node_deltas[sec].key_values.len() == kvs_in_sec, "C03: key-values attributed to another member"); sec += 1; }
                kvs_in_sec = 0; last_version = 0;
                assert!(d.node_deltas[sec].chitchat_id.node_id.as_bytes()[0] == o.id && d.node_deltas[sec].last_gc_version == o.gc && d.node_deltas[sec].from_version_excluded == o.from, "C03: member header altered");
            } else if o.kind == 1 {
                assert!(o.version > last_version, "C09: non-increasing key-value versions accepted");
                assert!(d.node_deltas[sec].key_values[kvs_in_sec].version == o.version, "C03: key-value version altered / cross-wired");
                assert!(d.node_deltas[sec].max_version >= o.version, "C09: decoded section announces a max version below one of its key-values (applying it aborts the node)");
                kvs_in_sec += 1; last_version = o.version;
            } else { last_version = o.version; }
            i += 1;
        }
        if n_ops > 0 { assert!(d.node_deltas[sec].key_values.len() == kvs_in_sec && d.node_deltas[sec].max_version == last_version, "C03: section max version differs from the last op"); }
        std::mem::forget(d);
    }
}

macro_rules! h_delta { ($name:ident, $unw:expr, $body:expr) => {
    #[kani::proof]
    #[kani::unwind($unw)]
    fn $name() { $body }
}}
