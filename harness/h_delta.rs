// Harnesses and cuts over chitchat/src/delta.rs (child module: private items are reachable).

/// ---- Delta recorder: assume/guarantee cut between state.rs (delta computation) and delta.rs (serializer).
/// The three `try_add_*` methods and `finish` of the real `DeltaSerializer` are replaced by a recorder of
/// plain-old-data ops in a static array; acceptance is decided by the truncation model (`REC_CUT`, harness-set).
/// Contract assumed here and checked on the real DeltaSerializer by the `ser_*` harnesses below:
///   an op is appended iff the call returns true; ops are never reordered, dropped or altered; a call that
///   returns false appends nothing.
pub(crate) const REC_CAP: usize = 8;
#[derive(Clone, Copy)]
pub(crate) struct RecOp { pub kind: u8, pub id0: u8, pub gc: u64, pub from: u64, pub key0: u8, pub version: u64, pub status: u8, pub val0: u8 }
pub(crate) const REC_NODE: u8 = 0;
pub(crate) const REC_KV: u8 = 1;
pub(crate) const REC_SETMAX: u8 = 2;
const REC_EMPTY: RecOp = RecOp { kind: 255, id0: 0, gc: 0, from: 0, key0: 0, version: 0, status: 0, val0: 0 };
pub(crate) static mut REC: [RecOp; REC_CAP] = [REC_EMPTY; REC_CAP];
pub(crate) static mut REC_N: usize = 0;
/// calls seen (accepted or not) and the index of the first refused call (usize::MAX = never refuse)
pub(crate) static mut REC_CALLS: usize = 0;
pub(crate) static mut REC_CUT: usize = usize::MAX;
pub(crate) static mut REC_FINISHED: bool = false;

pub(crate) fn rec_reset(cut: usize) { unsafe { REC_N = 0; REC_CALLS = 0; REC_CUT = cut; REC_FINISHED = false; } }
fn rec_accept() -> bool { unsafe { let c = REC_CALLS; REC_CALLS += 1; c < REC_CUT } }
fn rec_push(op: RecOp) { unsafe { if REC_N >= REC_CAP { kani::assume(false); } REC[REC_N] = op; REC_N += 1; } }
fn first_byte(s: &str) -> u8 { if s.is_empty() { 0 } else { s.as_bytes()[0] } }

pub(crate) fn rec_try_add_node(_s: &mut DeltaSerializer, chitchat_id: ChitchatId, last_gc_version: Version, from_version: Version) -> bool {
    if !rec_accept() { std::mem::forget(chitchat_id); return false; }
    rec_push(RecOp { kind: REC_NODE, id0: first_byte(&chitchat_id.node_id), gc: last_gc_version, from: from_version, ..REC_EMPTY });
    std::mem::forget(chitchat_id);
    true
}
pub(crate) fn rec_try_add_kv(_s: &mut DeltaSerializer, key: &str, versioned_value: VersionedValue) -> bool {
    if !rec_accept() { std::mem::forget(versioned_value); return false; }
    let status: DeletionStatusMutation = versioned_value.status.into();
    rec_push(RecOp { kind: REC_KV, key0: first_byte(key), version: versioned_value.version, status: status as u8, val0: first_byte(&versioned_value.value), ..REC_EMPTY });
    std::mem::forget(versioned_value);
    true
}
pub(crate) fn rec_try_set_max_version(_s: &mut DeltaSerializer, max_version: Version) -> bool {
    if !rec_accept() { return false; }
    rec_push(RecOp { kind: REC_SETMAX, version: max_version, ..REC_EMPTY });
    true
}
pub(crate) fn rec_with_mtu(mtu: usize) -> DeltaSerializer {
    assert!(mtu >= 100);
    DeltaSerializer { mtu, delta_builder: DeltaBuilder::default(), compressed_stream_writer: CompressedStreamWriter::with_block_threshold(8) }
}
pub(crate) fn rec_finish(s: DeltaSerializer) -> Delta {
    unsafe { REC_FINISHED = true; }
    std::mem::forget(s);
    Delta::default()
}
