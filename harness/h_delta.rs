// Harnesses and cuts over chitchat/src/delta.rs (child module: private items are reachable).

/// ---- Delta recorder: assume/guarantee cut between state.rs (delta computation) and delta.rs (serializer).
/// The three `try_add_*` methods and `finish` of the real `DeltaSerializer` are replaced by a recorder of
/// plain-old-data ops in a static array; acceptance is decided by the truncation model (`REC_CUT`, harness-set).
/// Contract assumed here and checked on the real DeltaSerializer by the `ser_*` harnesses below:
///   an op is appended iff the call returns true; ops are never reordered, dropped or altered; a call that
///   returns false appends nothing.
pub(crate) const REC_CAP: usize = 8;
#[derive(Clone, Copy)]
pub(crate) struct RecOp { pub kind: u8, pub id0: u8, pub gc: u64, pub from: u64, pub key0: u8, pub version: u64, pub status: u8, pub val0: u8 }
pub(crate) const REC_NODE: u8 = 0;
pub(crate) const REC_KV: u8 = 1;
pub(crate) const REC_SETMAX: u8 = 2;
const REC_EMPTY: RecOp = RecOp { kind: 255, id0: 0, gc: 0, from: 0, key0: 0, version: 0, status: 0, val0: 0 };
pub(crate) static mut REC: [RecOp; REC_CAP] = [REC_EMPTY; REC_CAP];
pub(crate) static mut REC_N: usize = 0;
/// calls seen (accepted or not) and the index of the first refused call (usize::MAX = never refuse)
pub(crate) static mut REC_CALLS: usize = 0;
pub(crate) static mut REC_CUT: usize = usize::MAX;
pub(crate) static mut REC_FINISHED: bool = false;

pub(crate) fn rec_reset(cut: usize) { unsafe { REC_N = 0; REC_CALLS = 0; REC_CUT = cut; REC_FINISHED = false; REC_PATTERN = u32::MAX; } }
pub(crate) fn rec_reset_pattern(pattern: u32) { unsafe { REC_N = 0; REC_CALLS = 0; REC_CUT = usize::MAX; REC_FINISHED = false; REC_PATTERN = pattern; } }
/// acceptance pattern (bit i = the i-th try_add_* call is accepted); u32::MAX = use the REC_CUT prefix model.
/// A concrete pattern is a *shape*: it also covers "a large op is refused, a later smaller one fits".
pub(crate) static mut REC_PATTERN: u32 = u32::MAX;
fn rec_accept() -> bool { unsafe { let c = REC_CALLS; REC_CALLS += 1; if REC_PATTERN == u32::MAX { c < REC_CUT } else { c < 32 && (REC_PATTERN >> c) & 1 == 1 } } }
fn rec_push(op: RecOp) { unsafe { if REC_N >= REC_CAP { kani::assume(false); } REC[REC_N] = op; REC_N += 1; } }
fn first_byte(s: &str) -> u8 { if s.is_empty() { 0 } else { s.as_bytes()[0] } }

pub(crate) fn rec_try_add_node(_s: &mut DeltaSerializer, chitchat_id: ChitchatId, last_gc_version: Version, from_version: Version) -> bool {
    if !rec_accept() { std::mem::forget(chitchat_id); return false; }
    rec_push(RecOp { kind: REC_NODE, id0: first_byte(&chitchat_id.node_id), gc: last_gc_version, from: from_version, ..REC_EMPTY });
    std::mem::forget(chitchat_id);
    true
}
pub(crate) fn rec_try_add_kv(_s: &mut DeltaSerializer, key: &str, versioned_value: VersionedValue) -> bool {
    if !rec_accept() { std::mem::forget(versioned_value); return false; }
    let status: DeletionStatusMutation = versioned_value.status.into();
    rec_push(RecOp { kind: REC_KV, key0: first_byte(key), version: versioned_value.version, status: status as u8, val0: first_byte(&versioned_value.value), ..REC_EMPTY });
    std::mem::forget(versioned_value);
    true
}
pub(crate) fn rec_try_set_max_version(_s: &mut DeltaSerializer, max_version: Version) -> bool {
    if !rec_accept() { return false; }
    rec_push(RecOp { kind: REC_SETMAX, version: max_version, ..REC_EMPTY });
    true
}
pub(crate) fn rec_with_mtu(mtu: usize) -> DeltaSerializer {
    assert!(mtu >= 100);
    DeltaSerializer { mtu, delta_builder: DeltaBuilder::default(), compressed_stream_writer: CompressedStreamWriter::with_block_threshold(8) }
}
pub(crate) fn rec_finish(s: DeltaSerializer) -> Delta {
    unsafe { REC_FINISHED = true; }
    std::mem::forget(s);
    Delta::default()
}

// ---------------------------------------------------------------------------------------------
// C03 (grouping) / C09 (structure-aware): the real DeltaBuilder fed any sequence of <= 3 syntactically valid ops
fn did(b: u8) -> ChitchatId { let mut s = String::with_capacity(1); s.push(b as char); ChitchatId::new(s, 0, ([127, 0, 0, 1], 1).into()) }
#[derive(Clone, Copy)]
struct OpSpec { kind: u8, id: u8, version: u64, gc: u64, from: u64 }
/// op kind concrete (shape), payload symbolic; a symbolic kind makes CBMC merge the three DeltaOp variants and
/// their heap pointers (measured: 11 GB for two ops)
fn any_op(kind: u8) -> OpSpec {
    let o = OpSpec { kind, id: kani::any(), version: kani::any(), gc: kani::any(), from: kani::any() };
    kani::assume(o.id == b'x' || o.id == b'y');
    o
}
fn mk_op(o: &OpSpec) -> DeltaOp {
    match o.kind {
        0 => DeltaOp::Node { chitchat_id: did(o.id), last_gc_version: o.gc, from_version_excluded: o.from },
        1 => DeltaOp::KeyValue(KeyValueMutation { key: "a".to_string(), value: String::new(), version: o.version, status: DeletionStatusMutation::Set }),
        _ => DeltaOp::SetMaxVersion { max_version: o.version },
    }
}
/// Returns the decoded delta for an arbitrary op sequence (None = the decoder refused it).
pub(crate) fn build_any_delta(n_ops: usize, kinds: [u8; 3], specs: &mut [OpSpec; 3]) -> Option<Delta> {
    let mut b = DeltaBuilder::default();
    let mut i = 0;
    while i < n_ops {
        specs[i] = any_op(kinds[i]);
        if b.apply_op(mk_op(&specs[i])).is_err() { std::mem::forget(b); return None; }
        i += 1;
    }
    Some(b.finish(1))
}
fn delta_grouping(n_ops: usize, k0: u8, k1: u8, k2: u8) {
    let mut specs = [OpSpec { kind: 0, id: b'x', version: 0, gc: 0, from: 0 }; 3];
    let d = build_any_delta(n_ops, [k0, k1, k2], &mut specs);
    kani::cover!(d.is_some() && n_ops >= 2, "multi-op sequence accepted");
    kani::cover!(d.is_none(), "sequence refused");
    if let Some(d) = d {
        // reference grouping: every op belongs to the last header before it
        assert!(n_ops == 0 || specs[0].kind == 0, "C03: op accepted without a preceding member header");
        let mut headers = 0; let mut i = 0;
        while i < n_ops { if specs[i].kind == 0 { headers += 1; } i += 1; }
        assert!(d.node_deltas.len() == headers, "C03: number of member sections differs from the number of headers");
        if headers == 2 { assert!(d.node_deltas[0].chitchat_id != d.node_deltas[1].chitchat_id, "C03: the same member appears twice in one delta"); }
        // walk the ops again
        let mut sec: usize = 0; let mut kvs_in_sec = 0; let mut last_version = 0u64; let mut i = 0;
        while i < n_ops {
            let o = specs[i];
            if o.kind == 0 {
                if i > 0 { assert!(d.node_deltas[sec].key_values.len() == kvs_in_sec, "C03: key-values attributed to another member"); sec += 1; }
                kvs_in_sec = 0; last_version = 0;
                assert!(d.node_deltas[sec].chitchat_id.node_id.as_bytes()[0] == o.id && d.node_deltas[sec].last_gc_version == o.gc && d.node_deltas[sec].from_version_excluded == o.from, "C03: member header altered");
            } else if o.kind == 1 {
                assert!(o.version > last_version, "C09: non-increasing key-value versions accepted");
                assert!(d.node_deltas[sec].key_values[kvs_in_sec].version == o.version, "C03: key-value version altered / cross-wired");
                assert!(d.node_deltas[sec].max_version >= o.version, "C09: decoded section announces a max version below one of its key-values (applying it aborts the node)");
                kvs_in_sec += 1; last_version = o.version;
            } else { last_version = o.version; }
            i += 1;
        }
        if n_ops > 0 { assert!(d.node_deltas[sec].key_values.len() == kvs_in_sec && d.node_deltas[sec].max_version == last_version, "C03: section max version differs from the last op"); }
        std::mem::forget(d);
    }
}

macro_rules! h_delta { ($name:ident, $unw:expr, $body:expr) => {
    #[kani::proof]
    #[kani::unwind($unw)]
    fn $name() { $body }
}}

// ---------------------------------------------------------------------------------------------
// C08: delta round-trip through the real DeltaSerializer / Delta::serialize / Delta::deserialize, and against an
// independent reference of the documented layout (hand-assembled bytes below share no code with serialize.rs).
fn set_codec(raw: bool) { crate::vstd::zstd::set_codec(if raw { crate::vstd::zstd::Codec::AlwaysFail } else { crate::vstd::zstd::Codec::Identity }); }

/// reference encoder of one member section, documented layout, little endian:
/// Node op: 0x00, id{u16 len, bytes}, generation u64, addr{0x04, 4 octets, port u16}, last_gc u64, from u64
/// KeyValue op: 0x01, key{u16 len, bytes}, value{u16 len, bytes}, version u64, status u8; SetMaxVersion op: 0x02, u64
fn ref_push_u64(v: &mut Vec<u8>, x: u64) { let b = x.to_le_bytes(); let mut i = 0; while i < 8 { v.push(b[i]); i += 1; } }
fn ref_ops(generation: u64, octets: [u8; 4], port: u16, gc: u64, from: u64, shape: u8, v1: u64, s1: u8, v2: u64, s2: u8, maxv: u64) -> Vec<u8> {
    let mut v: Vec<u8> = Vec::with_capacity(96);
    v.push(0); v.push(1); v.push(0); v.push(b'x'); ref_push_u64(&mut v, generation);
    v.push(4); v.push(octets[0]); v.push(octets[1]); v.push(octets[2]); v.push(octets[3]); v.push(port as u8); v.push((port >> 8) as u8);
    ref_push_u64(&mut v, gc); ref_push_u64(&mut v, from);
    if shape >= 1 && shape <= 2 { v.push(1); v.push(1); v.push(0); v.push(b'a'); v.push(0); v.push(0); ref_push_u64(&mut v, v1); v.push(s1); }
    if shape == 2 { v.push(1); v.push(1); v.push(0); v.push(b'b'); v.push(1); v.push(0); v.push(b'v'); ref_push_u64(&mut v, v2); v.push(s2); }
    if shape == 3 { v.push(2); ref_push_u64(&mut v, maxv); }
    v
}
/// shape 0: header only; 1: one key-value; 2: two key-values; 3: SetMaxVersion tail
fn delta_roundtrip(shape: u8, raw: bool) {
    set_codec(raw);
    let generation: u64 = kani::any(); let octets: [u8; 4] = kani::any(); let port: u16 = kani::any();
    let id = ChitchatId::new("x".to_string(), generation, std::net::SocketAddr::new(std::net::IpAddr::V4(std::net::Ipv4Addr::from(octets)), port));
    let (gc, from): (u64, u64) = (kani::any(), kani::any());
    let (v1, v2, maxv): (u64, u64, u64) = (kani::any(), kani::any(), kani::any());
    let (s1, s2): (u8, u8) = (kani::any(), kani::any());
    kani::assume(s1 < 3 && s2 < 3 && v1 < v2 && maxv > 0);
    let mut ser = DeltaSerializer::with_mtu(60_000);
    assert!(ser.try_add_node(id.clone(), gc, from));
    let st = |c: u8| -> crate::types::DeletionStatus { DeletionStatusMutation::try_from(c).unwrap().into_status(crate::vstd::time::Instant { secs: 0, nanos: 0 }) };
    if shape >= 1 && shape <= 2 { assert!(ser.try_add_kv("a", VersionedValue { value: String::new(), version: v1, status: st(s1) })); }
    if shape == 2 { assert!(ser.try_add_kv("b", VersionedValue { value: "v".to_string(), version: v2, status: st(s2) })); }
    if shape == 3 { assert!(ser.try_set_max_version(maxv)); }
    let delta = ser.finish();
    let mut bytes: Vec<u8> = Vec::with_capacity(128);
    delta.serialize(&mut bytes);            // asserts payload.len() == serialized_len internally (delta.rs:227)
    assert!(bytes.len() == delta.serialized_len(), "C08: Delta announces a length different from the bytes written");
    // (a) real encoder -> reference layout (single block; raw blocks are the documented plain layout)
    let ops = ref_ops(generation, octets, port, gc, from, shape, v1, s1, v2, s2, maxv);
    assert!(bytes.len() == ops.len() + 4, "C08: encoded delta length differs from the documented layout (block tag, u16 length, ops, end tag)");
    assert!(bytes[0] == if raw { 2 } else { 1 } && (bytes[1] as usize | ((bytes[2] as usize) << 8)) == ops.len() && bytes[bytes.len() - 1] == 0, "C08: block framing differs from the documented layout");
    let mut i = 0;
    while i < 96 { if i < ops.len() { assert!(bytes[3 + i] == ops[i], "C08: op stream bytes differ from the documented layout"); } i += 1; }
    // (b) real decoder on the real bytes
    let mut cur: &[u8] = &bytes[..];
    let back = Delta::deserialize(&mut cur);
    assert!(back.is_ok(), "C08: an emitted delta does not decode");
    assert!(cur.is_empty(), "C08: decoding did not consume exactly all bytes");
    let back = back.unwrap();
    assert!(back.serialized_len() == bytes.len(), "C08: decoded delta records a wrong serialized length");
    assert!(back.node_deltas.len() == 1, "C08: member sections changed in the round-trip");
    let nd = &back.node_deltas[0];
    assert!(nd.chitchat_id == id && nd.last_gc_version == gc && nd.from_version_excluded == from, "C08: member header changed in the round-trip");
    let n_kv = if shape == 1 { 1 } else if shape == 2 { 2 } else { 0 };
    assert!(nd.key_values.len() == n_kv, "C08: number of key-values changed in the round-trip");
    if n_kv >= 1 { assert!(nd.key_values[0].key == "a" && nd.key_values[0].value.is_empty() && nd.key_values[0].version == v1 && nd.key_values[0].status as u8 == s1, "C08: key-value changed in the round-trip"); }
    if n_kv == 2 { assert!(nd.key_values[1].key == "b" && nd.key_values[1].value == "v" && nd.key_values[1].version == v2 && nd.key_values[1].status as u8 == s2, "C08: second key-value changed in the round-trip"); }
    assert!(nd.max_version == if shape == 3 { maxv } else if n_kv == 2 { v2 } else if n_kv == 1 { v1 } else { 0 }, "C08: section max version changed in the round-trip");
    std::mem::forget(back); std::mem::forget(bytes); std::mem::forget(delta); std::mem::forget(ops);
}

/// contract cut for message-level budget queries: a Delta whose announced length is any value within the budget
pub(crate) fn delta_with_len(len: usize) -> Delta { let mut d = Delta::default(); d.serialized_len = len; d }
