// Harnesses over chitchat/src/lib.rs: the Chitchat object, built by struct literal with the smallest configuration.
use std::time::Duration;
use crate::digest::NodeDigest;
use crate::state::NodeState;
use crate::types::KeyValueMutation;
use crate::delta::NodeDelta;
use crate::failure_detector::verif_failure_detector as fdx;

fn sid() -> ChitchatId { ChitchatId::new("s".to_string(), 0, ([127, 0, 0, 1], 9).into()) }
fn xid() -> ChitchatId { ChitchatId::new("x".to_string(), 0, ([127, 0, 0, 1], 1).into()) }
fn yid() -> ChitchatId { ChitchatId::new("y".to_string(), 0, ([127, 0, 0, 1], 2).into()) }
const T0: vtime::Instant = vtime::Instant { secs: 0, nanos: 0 };

static mut CALLBACKS: u32 = 0;
fn counting_callback() { unsafe { CALLBACKS += 1; } }
fn has_key_a(ns: &NodeState) -> bool { ns.get("a").is_some() }

fn mk_chitchat(grace_s: u64, with_callback: bool, with_predicate: bool) -> Chitchat {
    let chitchat_id = sid();
    let listen_addr = chitchat_id.gossip_advertise_addr;
    let mut fd = FailureDetectorConfig::default();
    fd.dead_node_grace_period = Duration::from_secs(grace_s);
    fd.sampling_window_size = 2;
    let config = ChitchatConfig {
        chitchat_id, cluster_id: "c".to_string(), gossip_interval: Duration::from_secs(1), listen_addr, seed_nodes: Vec::new(),
        failure_detector_config: fd.clone(), marked_for_deletion_grace_period: Duration::from_secs(10),
        catchup_callback: if with_callback { Some(Box::new(counting_callback as fn())) } else { None },
        extra_liveness_predicate: if with_predicate { Some(Box::new(has_key_a as fn(&NodeState) -> bool)) } else { None },
    };
    let (seed_tx, seed_rx) = watch::channel(HashSet::default());
    std::mem::forget(seed_tx);
    let (live_nodes_watcher_tx, live_nodes_watcher_rx) = watch::channel(BTreeMap::new());
    let mut c = Chitchat {
        config, cluster_state: ClusterState::with_seed_addrs(seed_rx), failure_detector: FailureDetector::new(fd),
        previous_live_nodes: HashMap::new(), live_nodes_watcher_tx, live_nodes_watcher_rx,
    };
    let own_hb: u64 = kani::any();
    kani::assume(own_hb >= 1 && own_hb < u64::MAX - 4);
    let own_max: u64 = kani::any();
    let own_gc: u64 = kani::any();
    let s = c.self_node_state();
    s.try_set_heartbeat(Heartbeat(own_hb));
    s.set_max_version(own_max);
    s.set_last_gc_version(own_gc);
    c
}
fn frontier(c: &Chitchat, id: &ChitchatId) -> Option<(u64, u64, u64)> { c.node_state(id).map(|n| (n.last_gc_version(), n.max_version(), n.heartbeat().0)) }

// ---------------------------------------------------------------------------------------------
// report_heartbeat: C11 (integer part), C03 (heartbeat only raised, never above a digest value), C05 (own id
// ignored), C12 (re-creation guard after garbage collection)
fn lib_report_heartbeat(situation: u8) {
    let mut c = mk_chitchat(3600, false, false);
    let x = xid();
    // situation (shape): 0 absent, 1 present, 2 remembered as garbage collected, 3 = the node's own id
    let h0: u64 = kani::any();
    let h: u64 = kani::any();
    let target = if situation == 3 { sid() } else { xid() };
    if situation == 1 { let ns = c.cluster_state.node_state_mut_or_init(&x); ns.try_set_heartbeat(Heartbeat(h0)); }
    if situation == 2 { c.cluster_state.node_state_mut_or_init(&x).try_set_heartbeat(Heartbeat(h0)); c.cluster_state.remove_node(&x); }
    let own_before = frontier(&c, &sid());
    let had_window_before = fdx::fd_has_window(&c.failure_detector, &x);
    // C05 speaks about honest peers: their copy of this node is never ahead of the node itself (C03), heartbeat included
    if situation == 3 { kani::assume(h <= own_before.unwrap().2); }
    vtime::set_now(vtime::Instant { secs: 100, nanos: 0 });
    c.report_heartbeat(&target, Heartbeat(h));
    let after = frontier(&c, &x);
    let window = fdx::fd_window_fed(&c.failure_detector, &x);
    kani::cover!(situation == 2 && after.is_some(), "garbage-collected member recreated by a higher heartbeat");
    kani::cover!(situation == 1 && window, "fresh heartbeat reported to the detector");
    assert!(frontier(&c, &sid()) == own_before, "C05: a digest heartbeat changed the node's own state");
    assert!(!fdx::fd_is_live(&c.failure_detector, &x) && !fdx::fd_is_dead(&c.failure_detector, &x), "C11: a heartbeat report alone changed the live/dead classification");
    match situation {
        0 => { assert!(after == Some((0, 0, h)), "C03: first heartbeat not recorded verbatim"); assert!(!window, "C11: the first heartbeat observed for a member counted as liveness evidence"); }
        1 => {
            let fresh = h0 != 0 && h > h0;
            let expect = if h0 == 0 || h > h0 { h } else { h0 };
            assert!(after == Some((0, 0, expect)), "C03/C11: stored heartbeat must only rise, to the reported value");
            assert!(window == fresh, "C11: the detector must be fed iff the heartbeat is strictly higher than a known non-initial one");
        }
        2 => {
            if h > h0 { assert!(after == Some((0, 0, h)), "C12: member not recreated by a strictly higher heartbeat"); assert!(c.cluster_state.last_heartbeat_if_deleted(&x).is_none(), "C12: recreated member still remembered as deleted"); }
            else { assert!(after.is_none(), "C12: garbage-collected member recreated by a heartbeat not higher than the one known at removal"); }
            assert!(!window, "C12: a recreated member must start without liveness evidence");
        }
        _ => { assert!(after.is_none() && !window && !had_window_before, "C05: own id in a digest must be ignored"); }
    }
    std::mem::forget(c);
}

// ---------------------------------------------------------------------------------------------
// C16: a SYN for another cluster is answered with BadCluster and changes nothing but the own heartbeat
/// own cluster id concrete per query ("c", "", "cc"); the foreign id is ANY different ASCII string of 0..=2 bytes (pair >= 10)
/// or a concrete one (pair < 10, kept for replaying single cases)
fn lib_bad_cluster(pair: u8, known: bool) {
    let mut c = mk_chitchat(3600, false, false);
    let theirs: String;
    if pair >= 10 {
        // own id concrete ("c", "", "cc"), foreign id = ANY different ASCII string of 0..=2 bytes
        let own = match pair { 10 => "c", 11 => "", _ => "cc" };
        c.config.cluster_id = own.to_string();
        let (b0, b1, l): (u8, u8, usize) = (kani::any(), kani::any(), kani::any());
        kani::assume(b0 < 128 && b1 < 128 && l <= 2);
        let ob = own.as_bytes();
        let same = l == ob.len() && (l < 1 || b0 == ob[0]) && (l < 2 || b1 == ob[1]);
        kani::assume(!same);
        let mut v: Vec<u8> = Vec::with_capacity(2);
        v.push(b0); v.push(b1);
        unsafe { v.set_len(l); }
        kani::cover!(l == 1 && b0 == b'C', "foreign id differs by case only");
        kani::cover!(l == 0, "foreign id empty");
        kani::cover!(l == 2 && b0 == b'c', "own id is a prefix of the foreign id");
        theirs = unsafe { String::from_utf8_unchecked(v) };
    } else {
        let (own, th) = match pair { 0 => ("c", "d"), 1 => ("", "c"), 2 => ("c", ""), 3 => ("c", "C"), 4 => ("c", "cc"), _ => ("cc", "c") };
        c.config.cluster_id = own.to_string();
        theirs = th.to_string();
    }
    let mut digest = Digest::default();
    // shapes: the digest names one member (contents symbolic; what happens to a digest is behind the marker stub) that the node
    // knows (`known`) or not; making either symbolic merges two cluster states and doubles the query (19.5 GB)
    let in_digest: bool = true;
    if in_digest { digest.node_digests.insert(xid(), NodeDigest { heartbeat: Heartbeat(kani::any()), last_gc_version: kani::any(), max_version: kani::any() }); }
    if known { c.cluster_state.node_state_mut_or_init(&xid()).try_set_heartbeat(Heartbeat(7)); }
    let own_before = frontier(&c, &sid()).unwrap();
    let x_before = frontier(&c, &xid());
    unsafe { DIGEST_PROCESSED = false; }
    let reply = c.process_message(ChitchatMessage::Syn { cluster_id: theirs, digest });
    assert!(!unsafe { DIGEST_PROCESSED }, "C16: the digest of a SYN from another cluster was processed (heartbeats / members would leak)");
    kani::cover!(in_digest && !known, "foreign digest names an unknown member");
    assert!(matches!(reply, Some(ChitchatMessage::BadCluster)), "C16: SYN from another cluster not answered with a rejection only");
    assert!(frontier(&c, &xid()) == x_before, "C16: SYN from another cluster changed a member copy / created a member");
    assert!(c.cluster_state.node_states().len() == 1 + known as usize, "C16: membership changed by a foreign SYN");
    assert!(fdx::fd_sizes(&c.failure_detector) == (0, 0, 0), "C16: failure detector state touched by a foreign SYN");
    let own_after = frontier(&c, &sid()).unwrap();
    // (whether a rejected SYN ticks the own heartbeat is not C16's business: only that it never goes back)
    assert!(own_after.0 == own_before.0 && own_after.1 == own_before.1 && own_after.2 >= own_before.2, "C05/C16: own key-value frontier changed / heartbeat went back on a foreign SYN");
    std::mem::forget(c); std::mem::forget(reply);
}
fn lib_bad_cluster_reply() {
    let mut c = mk_chitchat(3600, false, false);
    let own_before = frontier(&c, &sid()).unwrap();
    let reply = c.process_message(ChitchatMessage::BadCluster);
    assert!(reply.is_none(), "C16: a rejection must be terminal for the initiator");
    assert!(c.cluster_state.node_states().len() == 1, "C16: membership changed by a rejection");
    let own_after = frontier(&c, &sid()).unwrap();
    assert!(own_after.0 == own_before.0 && own_after.1 == own_before.1, "C05: own data changed by a rejection");
    std::mem::forget(c);
}

// ---------------------------------------------------------------------------------------------
// process_delta: C20 (callback exactly once iff some copy was reset), C05 (honest deltas never touch the own namespace)
fn one_kv_delta(id: ChitchatId, from: u64, gc: u64, n_kv: usize, version: u64, max: u64) -> NodeDelta {
    let mut kvs = Vec::with_capacity(1);
    kvs.push(KeyValueMutation { key: "a".to_string(), value: String::new(), version, status: crate::types::DeletionStatusMutation::Set });
    unsafe { kvs.set_len(n_kv); }
    NodeDelta { chitchat_id: id, from_version_excluded: from, last_gc_version: gc, key_values: kvs, max_version: max }
}
fn lib_process_delta(sections: usize, with_callback: bool) {
    unsafe { CALLBACKS = 0; }
    let mut c = mk_chitchat(3600, with_callback, false);
    // copies of x (and y): possibly empty and only just created, possibly mid-reset
    let (xg, xm): (u64, u64) = (kani::any(), kani::any());
    let (yg, ym): (u64, u64) = (kani::any(), kani::any());
    { let n = c.cluster_state.node_state_mut_or_init(&xid()); n.set_last_gc_version(xg); n.set_max_version(xm); }
    if sections == 2 { let n = c.cluster_state.node_state_mut_or_init(&yid()); n.set_last_gc_version(yg); n.set_max_version(ym); }
    let mut delta = Delta::default();
    // honest-shaped sections: max = last key-value version, or any max when there is no key-value
    let (xf, xdg, xv, xn): (u64, u64, u64, usize) = (kani::any(), kani::any(), kani::any(), kani::any());
    kani::assume(xn <= 1 && xv >= 1);
    let xmaxd: u64 = if xn == 1 { xv } else { kani::any() };
    delta.node_deltas.push(one_kv_delta(xid(), xf, xdg, xn, xv, xmaxd));
    let (yf, ydg, yv, yn): (u64, u64, u64, usize) = (kani::any(), kani::any(), kani::any(), kani::any());
    kani::assume(yn <= 1 && yv >= 1);
    let ymaxd: u64 = if yn == 1 { yv } else { kani::any() };
    if sections == 2 { delta.node_deltas.push(one_kv_delta(yid(), yf, ydg, yn, yv, ymaxd)); }
    let own_before = frontier(&c, &sid());
    c.process_delta(delta);
    let xa = frontier(&c, &xid()).unwrap();
    let x_reset = xf <= xm && !(xdg <= xg || xdg <= xm) && xf == 0;
    let y_reset = sections == 2 && yf <= ym && !(ydg <= yg || ydg <= ym) && yf == 0;
    kani::cover!(x_reset && y_reset, "two copies reset by one message");
    kani::cover!(!x_reset && xa.1 > xm, "incremental update");
    let calls = unsafe { CALLBACKS };
    if with_callback { assert!(calls == (x_reset || y_reset) as u32, "C20: catch-up callback must run exactly once iff the message reset at least one copy"); }
    else { assert!(calls == 0, "C20: callback invoked although none is configured"); }
    if x_reset { assert!(xa.0 == xdg && xa.0 > xg, "C20: reset without a strictly higher watermark"); }
    assert!((xa.0, xa.1) >= (xg, xm), "C04: frontier decreased");
    assert!(frontier(&c, &sid()) == own_before, "C05: a delta about other members changed the node's own state");
    std::mem::forget(c);
}
/// C05: a delta section about the node's own id, from an honest source (not ahead of the owner), is ignored
fn lib_own_section() {
    let mut c = mk_chitchat(3600, false, false);
    c.self_node_state().set("a", "");
    let before = frontier(&c, &sid()).unwrap();
    let v_before = c.node_state(&sid()).unwrap().get_versioned("a").unwrap().version;
    let (f, dg, v, n): (u64, u64, u64, usize) = (kani::any(), kani::any(), kani::any(), kani::any());
    kani::assume(n <= 1 && v >= 1);
    let maxd: u64 = if n == 1 { v } else { kani::any() };
    // honest source: its copy of us never runs ahead of us (C03's invariant) and its watermark is one we passed
    kani::assume(maxd <= before.1 && dg <= before.0);
    let mut delta = Delta::default();
    delta.node_deltas.push(one_kv_delta(sid(), f, dg, n, v, maxd));
    c.process_delta(delta);
    let after = frontier(&c, &sid()).unwrap();
    assert!(after == before, "C05: gossip changed the node's own frontier or heartbeat");
    assert!(c.node_state(&sid()).unwrap().get_versioned("a").unwrap().version == v_before, "C05: gossip changed one of the node's own key-values");
    std::mem::forget(c);
}

// ---------------------------------------------------------------------------------------------
// update_nodes_liveness: C12 (disjoint sets, self live, removal after the grace period, remembered) and
// C13 (watch channel = evaluated membership, published iff it changed)
fn lib_liveness(with_predicate: bool) {
    let grace_s = 100u64;
    let mut c = mk_chitchat(grace_s, false, with_predicate);
    let x = xid();
    { let n = c.cluster_state.node_state_mut_or_init(&x); n.try_set_heartbeat(Heartbeat(5)); n.set_max_version(kani::any()); if kani::any() { n.set("a", ""); } }
    // arbitrary detector state for x with live and dead disjoint
    let was_live: bool = kani::any();
    let was_dead: bool = kani::any();
    kani::assume(!(was_live && was_dead));
    let death = vtime::Instant { secs: 1_000, nanos: 0 };
    if was_live { fdx::fd_set_live(&mut c.failure_detector, &x); }
    if was_dead { fdx::fd_set_dead(&mut c.failure_detector, &x, death); }
    let alive_now: bool = kani::any();
    fdx::fd_put_window(&mut c.failure_detector, &x, if alive_now { Some(vtime::Instant { secs: 1_000, nanos: 0 }) } else { None });
    let since: u64 = kani::any();
    kani::assume(since <= 400);
    vtime::set_now(vtime::Instant { secs: 1_000 + if alive_now { 0 } else { since }, nanos: 0 });
    // what the channel held before: either consistent with "x live at version pv" or empty
    let prev_known: bool = kani::any();
    let pv: u64 = kani::any();
    if prev_known { c.previous_live_nodes.insert(x.clone(), pv); }
    c.previous_live_nodes.insert(sid(), c.node_state(&sid()).unwrap().max_version());
    let version_before = c.live_nodes_watcher_rx.version();
    let x_max = c.node_state(&x).unwrap().max_version();
    let x_has_a = c.node_state(&x).unwrap().get("a").is_some();
    c.update_nodes_liveness();
    let live = fdx::fd_is_live(&c.failure_detector, &x);
    let dead = fdx::fd_is_dead(&c.failure_detector, &x);
    let removed = c.node_state(&x).is_none();
    kani::cover!(removed, "dead member removed after the grace period");
    kani::cover!(live && !was_live, "member became live");
    assert!(!(live && dead), "C12: live and dead sets overlap");
    assert!(!fdx::fd_is_dead(&c.failure_detector, &sid()) && c.node_state(&sid()).is_some(), "C12: the local node was classified dead or removed");
    assert!(c.live_nodes().any(|n| n == &sid()), "C12: the local node is not live");
    assert!(live == alive_now, "C10/C12: classification differs from the detector verdict");
    if !removed { assert!(live != dead, "C12: a known member is in neither or both of live / dead after an evaluation"); }
    if !alive_now && was_dead && since >= grace_s {
        assert!(removed && !dead && !fdx::fd_has_window(&c.failure_detector, &x), "C12: member dead for the full grace period not removed");
        assert!(c.cluster_state.last_heartbeat_if_deleted(&x) == Some(Heartbeat(5)), "C12: removed member not remembered with its last heartbeat");
    } else { assert!(!removed, "C12: member removed before being dead for the full grace period"); }
    // C13
    let published = c.live_nodes_watcher_rx.version() != version_before;
    let should_publish = (live && !(prev_known && pv == x_max)) || (!live && prev_known);
    if published {
        let val = c.live_nodes_watcher_rx.borrow();
        let passes = !with_predicate || x_has_a;
        assert!(val.contains_key(&sid()) == !with_predicate, "C13: the local node must be listed iff it passes the predicate");
        assert!(val.contains_key(&x) == (live && passes), "C13: published live set differs from {live members passing the predicate}");
        if let Some(ns) = val.get(&x) { assert!(ns.max_version() == x_max, "C13: snapshot does not carry the member's current max version"); }
    }
    assert!(published == should_publish, "C13: a value must be published iff the live set or a live member's max version changed");
    std::mem::forget(c);
}

// ---------------------------------------------------------------------------------------------
// C18: external catch-up entry point
fn lib_reset_node_state(situation: u8, n_supplied: usize) {
    let mut c = mk_chitchat(3600, false, false);
    let x = xid();
    // situation 0: absent, 1: present (possibly mid-reset), 2: remembered as garbage collected
    let (g0, m0): (u64, u64) = (kani::any(), kani::any());
    let v0: u64 = kani::any();
    let has_a: bool = kani::any();
    if situation >= 1 {
        let n = c.cluster_state.node_state_mut_or_init(&x);
        n.try_set_heartbeat(Heartbeat(3));
        if has_a { kani::assume(v0 >= 1 && v0 <= m0); n.set_versioned_value("a".to_string(), VersionedValue { value: String::new(), version: v0, status: DeletionStatus::Set }); }
        n.set_max_version(m0); n.set_last_gc_version(g0);
    }
    if situation == 2 { c.cluster_state.remove_node(&x); }
    let before = frontier(&c, &x);
    let (max_version, last_gc_version): (u64, u64) = (kani::any(), kani::any());
    let (va, vb): (u64, u64) = (kani::any(), kani::any());
    let mut kvs: Vec<(String, VersionedValue)> = Vec::with_capacity(2);
    kvs.push(("a".to_string(), VersionedValue { value: "n".to_string(), version: va, status: DeletionStatus::Set }));
    kvs.push(("b".to_string(), VersionedValue { value: "n".to_string(), version: vb, status: DeletionStatus::Set }));
    unsafe { kvs.set_len(n_supplied); }
    // the documented use: a state fetched from a peer is internally consistent
    kani::assume(va >= 1 && vb >= 1 && va != vb && (n_supplied < 1 || va <= max_version) && (n_supplied < 2 || vb <= max_version));
    c.reset_node_state_if_update(&x, kvs.into_iter(), max_version, last_gc_version);
    let after = frontier(&c, &x);
    kani::cover!(situation == 1 && after != before, "copy replaced");
    assert!(!fdx::fd_is_live(&c.failure_detector, &x), "C18: catch-up made a member live by itself");
    if situation == 2 { assert!(after.is_none(), "C18: catch-up recreated a garbage-collected member"); }
    if let (Some(b), Some(a)) = (before, after) {
        assert!((a.0, a.1) >= (b.0, b.1), "C18: catch-up lowered (watermark, max version)");
        if (a.0, a.1) == (b.0, b.1) && has_a { assert!(c.node_state(&x).unwrap().get_versioned("a").unwrap().version == v0, "C18: unchanged frontier but changed key"); }
        if has_a && n_supplied >= 1 && (a.0, a.1) != (b.0, b.1) { let now_v = c.node_state(&x).unwrap().get_versioned("a").unwrap().version; assert!(now_v == if va > v0 { va } else { v0 }, "C18: key present in both must keep the newer version"); }
        if has_a && n_supplied == 0 && (a.0, a.1) != (b.0, b.1) { assert!(c.node_state(&x).unwrap().get_versioned("a").is_none(), "C18: key absent from the supplied state must be dropped on replacement"); }
    }
    std::mem::forget(c);
}

// ---------------------------------------------------------------------------------------------
// C07 (message budget): SYN-ACK / ACK never exceed one UDP datagram when the delta respects the budget it is given
fn lib_syn_budget(digest_members: usize) {
    unsafe { DIGEST_MEMBERS = digest_members; }
    let mut c = mk_chitchat(3600, false, false);
    let reply = c.process_message(ChitchatMessage::Syn { cluster_id: "c".to_string(), digest: Digest::default() });
    match reply {
        Some(ChitchatMessage::SynAck { digest, delta }) => {
            let mtu = unsafe { crate::state::verif_state::LAST_MTU };
            assert!(mtu >= 100, "C07: the delta budget left by the own digest is below the documented minimum");
            let msg = ChitchatMessage::SynAck { digest, delta };
            let n = msg.serialized_len();
            kani::cover!(n == MAX_UDP_DATAGRAM_PAYLOAD_SIZE, "a SYN-ACK can fill the datagram exactly");
            assert!(n <= MAX_UDP_DATAGRAM_PAYLOAD_SIZE, "C07: a SYN-ACK whose delta respects its budget does not fit one UDP datagram (65,507 bytes)");
            std::mem::forget(msg);
        }
        _ => assert!(false, "C07: a SYN of the same cluster must be answered with a SYN-ACK"),
    }
    std::mem::forget(c);
}
/// cut: the own digest is any digest of `DIGEST_MEMBERS` members (its real serialized_len() is used by the budget)
static mut DIGEST_MEMBERS: usize = 1;
fn stub_compute_digest(_c: &Chitchat, _sched: &HashSet<&ChitchatId>) -> Digest {
    let mut d = Digest::default();
    let n = unsafe { DIGEST_MEMBERS };
    if n >= 1 { d.node_digests.insert(sid(), NodeDigest { heartbeat: Heartbeat(kani::any()), last_gc_version: kani::any(), max_version: kani::any() }); }
    if n >= 2 { d.node_digests.insert(xid(), NodeDigest { heartbeat: Heartbeat(kani::any()), last_gc_version: kani::any(), max_version: kani::any() }); }
    d
}
/// cut for C16: the digest-processing entry point is replaced by a marker; a foreign SYN must never reach it
static mut DIGEST_PROCESSED: bool = false;
fn stub_report_heartbeats(_c: &mut Chitchat, _digest: &Digest) { unsafe { DIGEST_PROCESSED = true; } }
// ---------------------------------------------------------------------------------------------
// C20: message glue. ClusterState::apply_delta is replaced by its contract (returns the reset flag: ANY bool; what the flag means is
// decided on the real function by c20_scalar_* / c20_apply_*); everything else on the path message -> process_delta -> callback is real.
static mut APPLY_CALLS: u32 = 0;
static mut APPLY_FLAGS: u32 = 0;
fn stub_apply_delta(_cs: &mut ClusterState, delta: Delta) -> bool {
    std::mem::forget(delta);
    let f: bool = kani::any();
    unsafe { APPLY_CALLS += 1; if f { APPLY_FLAGS += 1; } }
    f
}
/// arm: 0 Syn (same cluster), 1 SynAck, 2 Ack, 3 BadCluster, 4 Syn (other cluster), 5 = process_delta called directly for two messages in a row
fn lib_c20_message(arm: u8, with_callback: bool) {
    unsafe { CALLBACKS = 0; APPLY_CALLS = 0; APPLY_FLAGS = 0; DIGEST_PROCESSED = false; }
    let mut c = mk_chitchat(3600, with_callback, false);
    let mut digest = Digest::default();
    if arm <= 1 || arm == 4 { digest.node_digests.insert(xid(), NodeDigest { heartbeat: Heartbeat(kani::any()), last_gc_version: kani::any(), max_version: kani::any() }); }
    let mut flags_first = 0u32;
    let mut calls_first = 0u32;
    let reply = match arm {
        0 => c.process_message(ChitchatMessage::Syn { cluster_id: "c".to_string(), digest }),
        1 => c.process_message(ChitchatMessage::SynAck { digest, delta: Delta::default() }),
        2 => c.process_message(ChitchatMessage::Ack { delta: Delta::default() }),
        3 => c.process_message(ChitchatMessage::BadCluster),
        4 => c.process_message(ChitchatMessage::Syn { cluster_id: "d".to_string(), digest }),
        _ => {
            c.process_delta(Delta::default());
            unsafe { flags_first = APPLY_FLAGS; calls_first = CALLBACKS; }
            c.process_delta(Delta::default());
            None
        }
    };
    let (applies, flags, calls) = unsafe { (APPLY_CALLS, APPLY_FLAGS, CALLBACKS) };
    kani::cover!(applies >= 1 && flags == applies, "the delta of the message reset a copy");
    kani::cover!(applies >= 1 && flags == 0, "the delta of the message reset nothing");
    kani::cover!(arm == 5 && flags_first == 1 && flags == 2, "two messages in a row each reset a copy");
    // a message reset a copy iff some application of its delta reported a reset (one application per message on this tree)
    let expect = (flags_first > 0) as u32 + (flags > flags_first) as u32;
    if with_callback {
        assert!(calls_first == (flags_first > 0) as u32, "C20: catch-up callback must run exactly once iff the message reset at least one copy");
        assert!(calls == expect, "C20: catch-up callback must run exactly once for every message that reset at least one copy, and for no other");
    } else { assert!(calls == 0, "C20: callback invoked although none is configured"); }
    std::mem::forget(c); std::mem::forget(reply);
}
macro_rules! h_lib_c20 { ($name:ident, $unw:expr, $body:expr) => {
    #[kani::proof]
    #[kani::unwind($unw)]
    #[kani::stub(crate::listener::Listeners::trigger_event, noop_trigger)]
    #[kani::stub(crate::state::ClusterState::compute_partial_delta_respecting_mtu, stub_empty_delta)]
    #[kani::stub(crate::Chitchat::compute_digest, stub_compute_digest)]
    #[kani::stub(crate::Chitchat::report_heartbeats_in_digest, stub_report_heartbeats)]
    #[kani::stub(crate::state::ClusterState::apply_delta, stub_apply_delta)]
    fn $name() { $body }
}}
/// cut for C16: on the same-cluster path the content of the reply is irrelevant (any reply other than BadCluster is the violation)
fn stub_empty_delta(_cs: &ClusterState, _digest: &Digest, _mtu: usize, _sched: &HashSet<&ChitchatId>) -> Delta { Delta::default() }
/// cut for C16: a SYN never carries a delta; the other arms of process_message are unreachable for it but CBMC cannot fold the
/// niche-encoded message discriminant, so their bodies would be encoded too
fn stub_process_delta(_c: &mut Chitchat, delta: Delta) { unsafe { DIGEST_PROCESSED = true; } std::mem::forget(delta); }
macro_rules! h_lib_c16 { ($name:ident, $unw:expr, $body:expr) => {
    #[kani::proof]
    #[kani::unwind($unw)]
    #[kani::stub(crate::listener::Listeners::trigger_event, noop_trigger)]
    #[kani::stub(crate::state::ClusterState::compute_partial_delta_respecting_mtu, stub_empty_delta)]
    #[kani::stub(crate::Chitchat::compute_digest, stub_compute_digest)]
    #[kani::stub(crate::Chitchat::report_heartbeats_in_digest, stub_report_heartbeats)]
    #[kani::stub(crate::Chitchat::process_delta, stub_process_delta)]
    fn $name() { $body }
}}
macro_rules! h_lib_contract { ($name:ident, $unw:expr, $body:expr) => {
    #[kani::proof]
    #[kani::unwind($unw)]
    #[kani::stub(crate::listener::Listeners::trigger_event, noop_trigger)]
    #[kani::stub(crate::state::ClusterState::compute_partial_delta_respecting_mtu, crate::state::verif_state::contract_partial_delta)]
    #[kani::stub(crate::Chitchat::compute_digest, stub_compute_digest)]
    fn $name() { $body }
}}
macro_rules! h_lib { ($name:ident, $unw:expr, $body:expr) => {
    #[kani::proof]
    #[kani::unwind($unw)]
    #[kani::stub(crate::listener::Listeners::trigger_event, noop_trigger)]
    fn $name() { $body }
}}
