// Harnesses over chitchat/src/listener.rs (+ the trigger site in state.rs): real Listeners / InnerListeners.
use crate::ChitchatId;

static mut CALLS: [u32; 2] = [0; 2];
static mut LAST_KEY_LEN: [usize; 2] = [usize::MAX; 2];
static mut LAST_VAL_LEN: [usize; 2] = [usize::MAX; 2];
fn cb0(e: KeyChangeEvent) { unsafe { CALLS[0] += 1; LAST_KEY_LEN[0] = e.key.len(); LAST_VAL_LEN[0] = e.value.len(); } }
fn cb1(e: KeyChangeEvent) { unsafe { CALLS[1] += 1; LAST_KEY_LEN[1] = e.key.len(); LAST_VAL_LEN[1] = e.value.len(); } }

const PREFIXES: [&str; 6] = ["", "a", "\u{e9}", "a\u{e9}", "\u{1F600}", "aaaa"];   // '', a, é, aé, 😀, and a long decoy that sorts inside the scanned range of keys starting with a
const SYMS: [&str; 3] = ["a", "\u{e9}", "\u{1F600}"];                       // 1-, 2- and 4-byte characters
fn lid() -> ChitchatId { ChitchatId::new("x".to_string(), 0, ([127, 0, 0, 1], 1).into()) }

/// key = 0..=2 symbols chosen by the solver
fn any_key() -> (String, usize, [usize; 2]) {
    let n: usize = kani::any(); kani::assume(n <= 2);
    let s0: usize = kani::any(); let s1: usize = kani::any();
    kani::assume(s0 < 3 && s1 < 3);
    let mut k = String::with_capacity(8);
    if n >= 1 { k.push_str(SYMS[s0]); }
    if n >= 2 { k.push_str(SYMS[s1]); }
    (k, n, [s0, s1])
}
/// reference: is PREFIXES[p] a prefix of the key made of syms[..n]? and the stripped length
fn ref_match(p: usize, n: usize, syms: &[usize; 2]) -> Option<usize> {
    let klen = (if n >= 1 { SYMS[syms[0]].len() } else { 0 }) + (if n >= 2 { SYMS[syms[1]].len() } else { 0 });
    match p {
        0 => Some(klen),
        1 => if n >= 1 && syms[0] == 0 { Some(klen - 1) } else { None },
        2 => if n >= 1 && syms[0] == 1 { Some(klen - 2) } else { None },
        3 => if n >= 2 && syms[0] == 0 && syms[1] == 1 { Some(klen - 3) } else { None },
        4 => if n >= 1 && syms[0] == 2 { Some(klen - 4) } else { None },
        _ => None,   // "aaaa" is longer than any key of two symbols that starts with "aa"... and never a prefix of a <=2-symbol key
    }
}

/// C15: subscriptions with concrete prefixes p0 (and p1 if two), key symbolic; `drop_first`: the first handle is
/// dropped before the write, `forever_second`: the second handle is detached with forever().
fn c15_dispatch(p0: usize, p1: usize, two: bool, drop_first: bool, forever_second: bool) {
    unsafe { CALLS = [0; 2]; LAST_KEY_LEN = [usize::MAX; 2]; }
    let listeners = Listeners::default();
    let h0 = listeners.subscribe_event(PREFIXES[p0], cb0 as fn(KeyChangeEvent));
    let h1 = if two { Some(listeners.subscribe_event(PREFIXES[p1], cb1 as fn(KeyChangeEvent))) } else { None };
    if drop_first { drop(h0); } else { std::mem::forget(h0); }
    if let Some(h) = h1 { if forever_second { h.forever(); } else { std::mem::forget(h); } }
    let (key, n, syms) = any_key();
    let id = lid();
    let ev = KeyChangeEvent { key: key.as_str(), value: "v", node: &id };
    let mut l2 = listeners.clone();
    l2.trigger_event(ev);
    let e0 = if drop_first { None } else { ref_match(p0, n, &syms) };
    let e1 = if two { ref_match(p1, n, &syms) } else { None };
    kani::cover!(e0.is_some() && e1.is_some(), "both subscriptions match");
    kani::cover!(n >= 1 && syms[0] != 0, "key starts with a multi-byte character");
    unsafe {
        assert!(CALLS[0] == e0.is_some() as u32, "C15: subscription called a wrong number of times (must be exactly once iff its prefix is a prefix of the key and the handle is alive)");
        assert!(CALLS[1] == e1.is_some() as u32, "C15: second subscription called a wrong number of times");
        if let Some(l) = e0 { assert!(LAST_KEY_LEN[0] == l && LAST_VAL_LEN[0] == 1, "C15: event does not carry the key stripped of the prefix / the value"); }
        if let Some(l) = e1 { assert!(LAST_KEY_LEN[1] == l && LAST_VAL_LEN[1] == 1, "C15: event does not carry the key stripped of the prefix / the value"); }
    }
    std::mem::forget(listeners); std::mem::forget(l2); std::mem::forget(key);
}

/// C15 (subscribe/drop orders on ONE prefix): two subscriptions share PREFIXES[p]; one handle is dropped, a third
/// subscription is taken on the same prefix (it reuses the dropped one's callback counter); with `late_drop` the
/// remaining old handle is dropped too; then a key (0..=1 symbols) is written. `order` 0: the older handle goes first.
fn c15_same_prefix(p: usize, order: u8, late_drop: bool) {
    unsafe { CALLS = [0; 2]; LAST_KEY_LEN = [usize::MAX; 2]; }
    let listeners = Listeners::default();
    let h0 = listeners.subscribe_event(PREFIXES[p], cb0 as fn(KeyChangeEvent));
    let h1 = listeners.subscribe_event(PREFIXES[p], cb1 as fn(KeyChangeEvent));
    // (counter of the handle dropped first and re-subscribed, counter of the other old handle)
    let (re, kept) = if order == 0 { (0usize, 1usize) } else { (1usize, 0usize) };
    let (first, second) = if order == 0 { (h0, h1) } else { (h1, h0) };
    drop(first);
    let h2 = if re == 0 { listeners.subscribe_event(PREFIXES[p], cb0 as fn(KeyChangeEvent)) } else { listeners.subscribe_event(PREFIXES[p], cb1 as fn(KeyChangeEvent)) };
    if late_drop { drop(second); } else { std::mem::forget(second); }
    let n: usize = kani::any(); let s0: usize = kani::any();
    kani::assume(n <= 1 && s0 < 3);
    let mut key = String::with_capacity(4);
    if n == 1 { key.push_str(SYMS[s0]); }
    let id = lid();
    let mut l2 = listeners.clone();
    l2.trigger_event(KeyChangeEvent { key: key.as_str(), value: "v", node: &id });
    let m = ref_match(p, n, &[s0, 0]).is_some() as u32;
    kani::cover!(m == 1, "the shared prefix matches the key");
    unsafe {
        assert!(CALLS[re] == m, "C15: a new subscription on a shared prefix was not called exactly once (cancelled by another handle's drop, or the dropped one still fires)");
        assert!(CALLS[kept] == if late_drop { 0 } else { m }, "C15: an older subscription on a shared prefix was not called exactly once while its handle is alive / was called after its handle was dropped");
    }
    std::mem::forget(h2); std::mem::forget(listeners); std::mem::forget(l2); std::mem::forget(key);
}

/// C15 (i): any key of 0..=2 arbitrary characters, no listener or one with the empty prefix: no panic
fn c15_any_key_no_panic(with_listener: bool) {
    unsafe { CALLS = [0; 2]; }
    let listeners = Listeners::default();
    if with_listener { std::mem::forget(listeners.subscribe_event("", cb0 as fn(KeyChangeEvent))); }
    let n: usize = kani::any(); kani::assume(n <= 2);
    let c0: char = kani::any(); let c1: char = kani::any();
    let mut key = String::with_capacity(8);
    if n >= 1 { key.push(c0); }
    if n >= 2 { key.push(c1); }
    let id = lid();
    let mut l2 = listeners.clone();
    l2.trigger_event(KeyChangeEvent { key: key.as_str(), value: "v", node: &id });
    kani::cover!(n >= 1 && c0.len_utf8() == 3, "three-byte first character");
    unsafe { assert!(CALLS[0] == with_listener as u32, "C15: the empty prefix must match every key exactly once"); }
    std::mem::forget(listeners); std::mem::forget(l2); std::mem::forget(key);
}

macro_rules! h_lst { ($name:ident, $unw:expr, $body:expr) => {
    #[kani::proof]
    #[kani::unwind($unw)]
    fn $name() { $body }
}}
