// Harnesses over chitchat/src/serialize.rs: the block-compressed stream writer/reader at byte level.
// Codec (vstd::zstd) is the any-length model unless a harness switches it to identity-or-fail.

/// C07(a): after appending items (each at most one block long) the finished stream is never longer than the
/// upper bound announced before the last append.
fn ser_upper_bound<const A: usize, const B: usize, const C: usize>(threshold: u16, n_items: usize) {
    crate::vstd::zstd::set_codec(crate::vstd::zstd::Codec::AnyLength);
    let mut w = CompressedStreamWriter::with_block_threshold(threshold);
    let a: [u8; A] = kani::any(); let b: [u8; B] = kani::any(); let c: [u8; C] = kani::any();
    let mut ub = 0usize;
    if n_items >= 1 { ub = w.serialized_len_upperbound_after(&a); w.append(&a); }
    if n_items >= 2 { ub = w.serialized_len_upperbound_after(&b); w.append(&b); }
    if n_items >= 3 { ub = w.serialized_len_upperbound_after(&c); w.append(&c); }
    let out = w.finish();
    kani::cover!(out.len() == ub, "upper bound attained exactly (last block stored raw)");
    assert!(out.len() <= ub, "C07: finished stream longer than the upper bound announced before the append");
    assert!(out.len() >= 1 && out[out.len() - 1] == 0, "C08: stream does not end with the no-more-blocks tag");
    std::mem::forget(out);
}

/// C08: stream round-trip with the lossless codec: decode(encode(items)) == items, all bytes consumed
fn ser_stream_roundtrip<const A: usize, const B: usize>(threshold: u16, raw_blocks: bool) {
    crate::vstd::zstd::set_codec(if raw_blocks { crate::vstd::zstd::Codec::AlwaysFail } else { crate::vstd::zstd::Codec::Identity });
    let mut w = CompressedStreamWriter::with_block_threshold(threshold);
    let a: [u8; A] = kani::any(); let b: [u8; B] = kani::any();
    w.append(&a); w.append(&b);
    let out = w.finish();
    let mut cur: &[u8] = &out[..];
    let items = deserialize_stream::<u8>(&mut cur);
    assert!(items.is_ok(), "C08: encoder output rejected by the decoder");
    let items = items.unwrap();
    assert!(cur.is_empty(), "C08: decoder did not consume exactly the encoded bytes");
    assert!(items.len() == A + B, "C08: decoded stream length differs");
    let mut i = 0;
    while i < A { assert!(items[i] == a[i], "C08: stream round-trip changed a byte"); i += 1; }
    let mut i = 0;
    while i < B { assert!(items[A + i] == b[i], "C08: stream round-trip changed a byte"); i += 1; }
    std::mem::forget(items); std::mem::forget(out);
}

/// C09(i): the stream reader on an arbitrary buffer: Ok or Err, never a panic
fn ser_stream_hostile<const N: usize>() {
    crate::vstd::zstd::set_codec(crate::vstd::zstd::Codec::AnyLength);
    let buf: [u8; N] = kani::any();
    let len: usize = kani::any();
    kani::assume(len <= N);
    let mut cur: &[u8] = &buf[..len];
    let r = deserialize_stream::<u8>(&mut cur);
    kani::cover!(r.is_ok(), "some buffer decodes");
    kani::cover!(r.is_err(), "some buffer is refused");
    std::mem::forget(r);
}

/// primitive codecs: round-trip and announced length
fn ser_primitives() {
    let mut buf: Vec<u8> = Vec::with_capacity(64);
    let id = ChitchatId::new(String::new(), kani::any(), SocketAddr::new(IpAddr::V4(Ipv4Addr::from(kani::any::<[u8; 4]>())), kani::any()));
    id.serialize(&mut buf);
    assert!(buf.len() == id.serialized_len(), "C08: ChitchatId announces a length different from the bytes written");
    let mut cur: &[u8] = &buf[..];
    let back = ChitchatId::deserialize(&mut cur);
    assert!(back.is_ok() && cur.is_empty(), "C08: ChitchatId does not decode / bytes left over");
    let back = back.unwrap();
    assert!(back.generation_id == id.generation_id && back.gossip_advertise_addr == id.gossip_advertise_addr && back.node_id.is_empty(), "C08: ChitchatId round-trip changed a field");
    std::mem::forget(back); std::mem::forget(buf); std::mem::forget(id);
}
fn ser_primitives_v6() {
    let mut buf: Vec<u8> = Vec::with_capacity(64);
    let addr = SocketAddr::new(IpAddr::V6(Ipv6Addr::from(kani::any::<[u8; 16]>())), kani::any());
    addr.serialize(&mut buf);
    assert!(buf.len() == addr.serialized_len(), "C08: SocketAddr announces a length different from the bytes written");
    let mut cur: &[u8] = &buf[..];
    let back = SocketAddr::deserialize(&mut cur);
    assert!(back.is_ok() && cur.is_empty(), "C08: IPv6 address does not decode / bytes left over");
    assert!(back.unwrap() == addr, "C08: IPv6 socket address round-trip changed the value");
    std::mem::forget(buf);
}

macro_rules! h_ser { ($name:ident, $unw:expr, $body:expr) => {
    #[kani::proof]
    #[kani::unwind($unw)]
    fn $name() { $body }
}}
