// Harnesses over chitchat/src/server.rs: peer selection with the random generator modelled by contract
// (vstd::randmodel: `sample(n)` = any min(n,len) distinct elements, `choose` = any element, raw draws = any value).
use crate::vstd::rand::NondetRng;

fn addr(i: u8) -> SocketAddr { SocketAddr::new(std::net::IpAddr::V4(std::net::Ipv4Addr::new(10, 0, 0, i)), 7000) }

/// universe of `n` addresses; membership of each in peers / live / dead / seeds symbolic, constrained the way the
/// caller (gossip_multiple) builds them: live and dead are disjoint subsets of peers
fn c17_select(n: usize) {
    let mut peers = HashSet::new(); let mut live = HashSet::new(); let mut dead = HashSet::new(); let mut seeds = HashSet::new();
    let mut in_peers = [false; 4]; let mut in_live = [false; 4]; let mut in_dead = [false; 4]; let mut in_seeds = [false; 4];
    let mut i = 0;
    while i < n {
        in_peers[i] = kani::any(); in_live[i] = kani::any(); in_dead[i] = kani::any(); in_seeds[i] = kani::any();
        kani::assume(!(in_live[i] && in_dead[i]) && (!in_live[i] || in_peers[i]) && (!in_dead[i] || in_peers[i]));
        if in_peers[i] { peers.insert(addr(i as u8)); }
        if in_live[i] { live.insert(addr(i as u8)); }
        if in_dead[i] { dead.insert(addr(i as u8)); }
        if in_seeds[i] { seeds.insert(addr(i as u8)); }
        i += 1;
    }
    let (n_live, n_dead, n_seeds, n_peers) = (live.len(), dead.len(), seeds.len(), peers.len());
    let mut rng = NondetRng;
    let (nodes, dead_opt, seed_opt) = select_nodes_for_gossip(&mut rng, peers, live, dead, seeds);
    kani::cover!(nodes.len() == 3, "three targets");
    kani::cover!(n_live == 0 && n_seeds > 0, "isolated with a seed known");
    kani::cover!(dead_opt.is_some(), "dead peer contacted");
    assert!(nodes.len() <= 3, "C17: more than three gossip targets");
    assert!(nodes.len() == if n_live == 0 { if n_peers < 3 { n_peers } else { 3 } } else { if n_live < 3 { n_live } else { 3 } }, "C17: number of targets is not min(3, pool size)");
    let mut has_seed_target = false;
    let mut j = 0;
    while j < nodes.len() {
        let a = nodes[j];
        let idx = match a { SocketAddr::V4(v4) => v4.ip().octets()[3] as usize, _ => 99 };
        assert!(idx < n, "C17: target outside the known addresses");
        if n_live > 0 { assert!(in_live[idx], "C17: target not drawn from the live peers"); } else { assert!(in_peers[idx], "C17: target not drawn from the known peers"); }
        if in_seeds[idx] { has_seed_target = true; }
        let mut k = 0;
        while k < j { assert!(nodes[k] != a, "C17: the same peer targeted twice in one round"); k += 1; }
        j += 1;
    }
    if let Some(SocketAddr::V4(d)) = dead_opt { assert!(in_dead[d.ip().octets()[3] as usize], "C17: 'dead' pick is not in the dead set"); }
    if let Some(SocketAddr::V4(s)) = seed_opt { assert!(in_seeds[s.ip().octets()[3] as usize], "C17: 'seed' pick is not in the seed set"); }
    if n_live == 0 && n_seeds > 0 { assert!(has_seed_target || seed_opt.is_some(), "C17: isolated node (no live peer) with a known seed did not contact any seed"); }
    if n_dead > n_live { assert!(dead_opt.is_some(), "C17: dead peers outnumber live ones but no dead peer is contacted"); }
    if n_dead == 0 { assert!(dead_opt.is_none(), "C17: dead pick although no peer is dead"); }
    if n_seeds == 0 { assert!(seed_opt.is_none(), "C17: seed pick although no seed is known"); }
    std::mem::forget(nodes);
}

macro_rules! h_srv { ($name:ident, $unw:expr, $body:expr) => {
    #[kani::proof]
    #[kani::unwind($unw)]
    fn $name() { $body }
}}
