//! Differential tests: model containers (compiled natively, `kani::any`/`assume` shimmed) vs the real ones.
#![allow(dead_code, unused_imports, unused_variables, unused_mut, static_mut_refs)]

#[path = "../../../models/vstd.rs"]
pub mod vstd;

#[cfg(test)]
mod tests {
    use super::vstd;
    use std::collections as real;
    use std::ops::Bound;

    fn seed() -> u64 { std::env::var("VERIF_SEED").ok().and_then(|s| s.parse().ok()).unwrap_or(0) }
    fn rounds() -> usize { std::env::var("MODELCHECK_ROUNDS").ok().and_then(|s| s.parse().ok()).unwrap_or(20_000) }

    #[test]
    fn btreemap_model_matches_std() {
        kani::seed(seed().wrapping_mul(77).wrapping_add(1));
        for _ in 0..rounds() {
            let mut m: vstd::collections::BTreeMap<u8, u64> = vstd::collections::BTreeMap::new();
            let mut r: real::BTreeMap<u8, u64> = real::BTreeMap::new();
            for _ in 0..12 {
                let k = (kani::next() % 6) as u8; let v = kani::next() % 100;
                match kani::next() % 9 {
                    0 | 1 => { if r.len() < vstd::collections::CAP || r.contains_key(&k) { assert_eq!(m.insert(k, v), r.insert(k, v)); } }
                    2 => assert_eq!(m.remove(&k), r.remove(&k)),
                    3 => assert_eq!(m.get(&k), r.get(&k)),
                    4 => { if let Some(x) = m.get_mut(&k) { *x += 1; } if let Some(x) = r.get_mut(&k) { *x += 1; } }
                    5 => { m.retain(|_, v| *v % 2 == 0); r.retain(|_, v| *v % 2 == 0); }
                    6 => {
                        if r.len() < vstd::collections::CAP || r.contains_key(&k) {
                            match m.entry(k) { vstd::collections::btree_map::Entry::Occupied(mut o) => { *o.get_mut() = v; } vstd::collections::btree_map::Entry::Vacant(e) => { e.insert(v); } }
                            match r.entry(k) { real::btree_map::Entry::Occupied(mut o) => { *o.get_mut() = v; } real::btree_map::Entry::Vacant(e) => { e.insert(v); } }
                        }
                    }
                    7 => { if r.len() < vstd::collections::CAP || r.contains_key(&k) { *m.entry(k).or_default() += 1; *r.entry(k).or_default() += 1; } }
                    _ => { for x in m.values_mut() { *x += 2; } for x in r.values_mut() { *x += 2; } }
                }
                assert_eq!(m.len(), r.len());
                assert_eq!(m.iter().map(|(a, b)| (*a, *b)).collect::<Vec<_>>(), r.iter().map(|(a, b)| (*a, *b)).collect::<Vec<_>>());
                assert_eq!(m.keys().rev().cloned().collect::<Vec<_>>(), r.keys().rev().cloned().collect::<Vec<_>>());
                let lo = (kani::next() % 6) as u8;
                assert_eq!(m.range((Bound::Included(lo), Bound::Unbounded)).map(|(a, b)| (*a, *b)).collect::<Vec<_>>(), r.range((Bound::Included(lo), Bound::Unbounded)).map(|(a, b)| (*a, *b)).collect::<Vec<_>>());
                let hi = lo.max((kani::next() % 6) as u8);
                assert_eq!(m.range((Bound::Included(lo), Bound::Included(hi))).map(|(a, _)| *a).collect::<Vec<_>>(), r.range((Bound::Included(lo), Bound::Included(hi))).map(|(a, _)| *a).collect::<Vec<_>>());
            }
            // the eager flat_map model holds at most CAP items (more is outside the bound: assume(false))
            if r.len() * 2 <= vstd::collections::CAP {
                let mv: Vec<u64> = m.clone().into_values().rev().flat_map(|v| vec![v, v + 1].into_iter()).collect();
                let rv: Vec<u64> = r.clone().into_values().rev().flat_map(|v| vec![v, v + 1].into_iter()).collect();
                assert_eq!(mv, rv);
            } else {
                let mv: Vec<u64> = m.clone().into_values().rev().flat_map(|v| Some(v).into_iter()).collect();
                let rv: Vec<u64> = r.clone().into_values().rev().flat_map(|v| Some(v).into_iter()).collect();
                assert_eq!(mv, rv);
            }
            assert_eq!(m.into_values().collect::<Vec<_>>(), r.into_values().collect::<Vec<_>>());
        }
    }

    #[test]
    fn hash_models_match_std() {
        kani::seed(seed().wrapping_mul(91).wrapping_add(3));
        for _ in 0..rounds() {
            let mut m: vstd::collections::HashMap<u8, u64> = vstd::collections::HashMap::new();
            let mut r: real::HashMap<u8, u64> = real::HashMap::new();
            let mut s: vstd::collections::HashSet<u8> = vstd::collections::HashSet::new();
            let mut rs: real::HashSet<u8> = real::HashSet::new();
            for _ in 0..12 {
                let k = (kani::next() % 6) as u8; let v = kani::next() % 100;
                match kani::next() % 7 {
                    0 | 1 => { if r.len() < vstd::collections::CAP || r.contains_key(&k) { assert_eq!(m.insert(k, v), r.insert(k, v)); } }
                    2 => assert_eq!(m.remove(&k), r.remove(&k)),
                    3 => { if r.len() < vstd::collections::CAP || r.contains_key(&k) { *m.entry(k).or_insert_with(|| 7) += 1; *r.entry(k).or_insert_with(|| 7) += 1; } }
                    4 => { if rs.len() < vstd::collections::CAP || rs.contains(&k) { assert_eq!(s.insert(k), rs.insert(k)); } }
                    5 => assert_eq!(s.remove(&k), rs.remove(&k)),
                    _ => assert_eq!(s.contains(&k), rs.contains(&k)),
                }
                assert_eq!(m.len(), r.len());
                let mut a: Vec<_> = m.iter().map(|(a, b)| (*a, *b)).collect(); a.sort();
                let mut b: Vec<_> = r.iter().map(|(a, b)| (*a, *b)).collect(); b.sort();
                assert_eq!(a, b);
                let mut a: Vec<_> = s.iter().cloned().collect(); a.sort();
                let mut b: Vec<_> = rs.iter().cloned().collect(); b.sort();
                assert_eq!(a, b);
                assert_eq!(m.get(&k), r.get(&k));
            }
            let m2 = m.clone();
            assert!(m == m2);
        }
    }

    #[test]
    fn lru_model_matches_lru_below_capacity() {
        kani::seed(seed().wrapping_mul(13).wrapping_add(5));
        for _ in 0..rounds() {
            let mut m: vstd::lru::LruCache<u8, u64> = vstd::lru::LruCache::new(std::num::NonZeroUsize::new(500).unwrap());
            let mut r: lru::LruCache<u8, u64> = lru::LruCache::new(std::num::NonZeroUsize::new(500).unwrap());
            for _ in 0..10 {
                let k = (kani::next() % 6) as u8; let v = kani::next() % 100;
                match kani::next() % 3 {
                    0 => { if r.len() < vstd::collections::CAP || r.contains(&k) { assert_eq!(m.push(k, v), r.push(k, v)); } }
                    1 => assert_eq!(m.pop(&k), r.pop(&k)),
                    _ => assert_eq!(m.peek(&k), r.peek(&k)),
                }
            }
        }
    }

    #[test]
    fn sorted_model_matches_itertools() {
        use itertools::Itertools as RealIt;
        kani::seed(seed().wrapping_mul(7).wrapping_add(9));
        for _ in 0..rounds() {
            let n = (kani::next() % (vstd::collections::CAP as u64 + 1)) as usize;
            let v: Vec<(u64, u8)> = (0..n).map(|i| (kani::next() % 5, i as u8)).collect();
            let a: Vec<_> = vstd::itertools::Itertools::sorted_unstable_by_key(v.clone().into_iter(), |x| x.0).map(|x| x.0).collect();
            let b: Vec<_> = RealIt::sorted_unstable_by_key(v.clone().into_iter(), |x| x.0).map(|x| x.0).collect();
            assert_eq!(a, b);
        }
    }

    #[test]
    fn instant_model_matches_integer_nanoseconds() {
        use std::time::Duration;
        kani::seed(seed().wrapping_mul(5).wrapping_add(11));
        for _ in 0..rounds() {
            let a = vstd::time::Instant { secs: kani::next() % 1_000_000, nanos: (kani::next() % 1_000_000_000) as u32 };
            let d = Duration::new(kani::next() % 1_000_000, (kani::next() % 1_000_000_000) as u32);
            let b = a + d;
            let ns = |i: vstd::time::Instant| i.secs as u128 * 1_000_000_000 + i.nanos as u128;
            assert_eq!(ns(b), ns(a) + d.as_nanos());
            assert!(b.nanos < 1_000_000_000);
            assert_eq!(b.duration_since(a), d);
            assert_eq!(a.duration_since(b), Duration::ZERO);
            assert_eq!(a < b, ns(a) < ns(b));
        }
    }

    #[test]
    fn sampling_contracts_hold() {
        use vstd::randmodel::IteratorRandom;
        kani::seed(seed().wrapping_mul(3).wrapping_add(13));
        let mut done = 0;
        for _ in 0..rounds() {
            let n = (kani::next() % (vstd::collections::CAP as u64 + 1)) as usize;
            let v: Vec<u8> = (0..n as u8).collect();
            // a false `assume` inside the model aborts the draw: count only completed ones
            let r = std::panic::catch_unwind(|| { let mut g = 0u8; v.clone().into_iter().sample(&mut g, 3) });
            if let Ok(s) = r {
                done += 1;
                assert_eq!(s.len(), n.min(3));
                let mut t = s.clone(); t.sort(); t.dedup();
                assert_eq!(t.len(), s.len());
                assert!(s.iter().all(|x| (*x as usize) < n));
            }
            let r = std::panic::catch_unwind(|| { let mut g = 0u8; v.clone().into_iter().choose(&mut g) });
            if let Ok(c) = r { assert_eq!(c.is_some(), n > 0); if let Some(x) = c { assert!((x as usize) < n); } }
        }
        assert!(done > 100);
    }
}
