//! native stand-in for the `kani` crate: `any` draws from a seeded generator, a false `assume` aborts the case

    use std::cell::Cell;
    thread_local! { static STATE: Cell<u64> = Cell::new(0x9E3779B97F4A7C15); }
    pub fn seed(s: u64) { STATE.with(|c| c.set(s | 1)); }
    pub fn next() -> u64 { STATE.with(|c| { let mut x = c.get(); x ^= x << 13; x ^= x >> 7; x ^= x << 17; c.set(x); x }) }
    pub struct AssumeFailed;
    pub fn assume(c: bool) { if !c { std::panic::panic_any(AssumeFailed); } }
    pub trait Arbitrary { fn arb() -> Self; }
    impl Arbitrary for bool { fn arb() -> Self { next() & 1 == 1 } }
    impl Arbitrary for u8 { fn arb() -> Self { next() as u8 } }
    impl Arbitrary for u32 { fn arb() -> Self { next() as u32 } }
    impl Arbitrary for u64 { fn arb() -> Self { next() } }
    impl Arbitrary for usize { fn arb() -> Self { (next() % 8) as usize } }   // small: indices/lengths
    pub fn any<T: Arbitrary>() -> T { T::arb() }
