"""Regenerates the Kani encoding from /repo's current working tree.

Copies /repo/chitchat into a scratch crate, rewrites the *imports* of environment
types (std containers, tokio clock/watch, lru, zstd, rand, tracing) to the models in
/verif/models/vstd.rs, and appends `#[cfg(kani)]` child modules that `include!` the
harness files of /verif/harness. No chitchat function body is touched.
"""
import os
import re
import shutil
import subprocess

REPO = os.environ.get("VERIF_REPO", "/repo")
VERIF = os.path.dirname(os.path.dirname(os.path.abspath(__file__)))
MODULES = ["state", "lib", "delta", "serialize", "failure_detector", "listener",
           "server", "message", "digest", "types"]


class EncodingError(Exception):
    pass


# (file glob list, regex, replacement, must_apply_in) ; must_apply_in = files where the rewrite has
# to hit at least once on the unchanged tree (used as a sanity check, downgraded to a warning when
# the construct has disappeared from the file altogether).
REWRITES = [
    ("*", r"\bstd::collections::", "crate::vstd::collections::"),
    ("**", r"(?<![\w:])anyhow::", "crate::vstd::anyhow::"),
    (["listener.rs"], r"\bstd::sync::", "crate::vstd::sync::"),
    ("*", r"(?m)^(\s*)use tracing::", r"\1use crate::vstd::tracing::"),
    ("*", r"\bzstd::bulk::", "crate::vstd::zstd::bulk::"),
    ("*", r"(?m)^(\s*)use tokio::time::Instant;", r"\1use crate::vstd::time::Instant;"),
    (["state.rs"], r"(?m)^(\s*)rand::rng\(\)", r"\1crate::vstd::rand::rng()"),
    (["state.rs"], r"(?m)^use rand::prelude::SliceRandom;", "use crate::vstd::randmodel::SliceRandom;"),
    (["server.rs"], r"(?m)^use rand::prelude::\*;", "use crate::vstd::randmodel::prelude::*;"),
    ("*", r"(?m)^use tokio::sync::watch;", "use crate::vstd::watch;"),
    ("*", r"(?m)^use tokio::sync::\{Mutex, watch\};", "use tokio::sync::Mutex; use crate::vstd::watch;"),
    ("*", r"(?m)^use tokio_stream::wrappers::WatchStream;", "use crate::vstd::watch::WatchStream;"),
    ("*", r"(?m)^use itertools::Itertools;", "use crate::vstd::itertools::Itertools;"),
    ("*", r"(?m)^use lru::LruCache;", "use crate::vstd::lru::LruCache;"),
]

# constructs that must not survive un-rewritten in the non-transport sources (outside cfg(test) code);
# if one does, the encoding would silently use an un-modelled environment type.
FORBIDDEN_AFTER = [
    (r"\bstd::collections::(BTreeMap|HashMap|HashSet|btree_map|hash_map)", "std collection"),
    (r"(?<!vstd::)\blru::LruCache", "lru"),
    (r"\btokio::time::Instant", "tokio Instant"),
    (r"\btokio::sync::watch", "tokio watch"),
    (r"(?<!vstd::)\bzstd::", "zstd"),
]


def _strip_tests(src: str) -> str:
    """Text of `src` up to the `#[cfg(test)] mod tests` block (used only for sanity scanning)."""
    m = re.search(r"(?m)^#\[cfg\(test\)\]\s*\nmod tests", src)
    return src[: m.start()] if m else src


def make_scratch(work: str, gens: dict | None = None, cap: int = 4, extra_cfg=None) -> str:
    """Create the scratch crate under `work`; returns the crate directory."""
    gens = gens or {}
    crate = os.path.join(work, "chitchat")
    if os.path.exists(work):
        shutil.rmtree(work)
    os.makedirs(work)
    src_repo = os.path.join(REPO, "chitchat")
    shutil.copytree(os.path.join(src_repo, "src"), os.path.join(crate, "src"))
    shutil.copy(os.path.join(src_repo, "Cargo.toml"), os.path.join(crate, "Cargo.toml"))
    shutil.copy(os.path.join(REPO, "Cargo.lock"), os.path.join(crate, "Cargo.lock"))
    with open(os.path.join(crate, "Cargo.toml"), "a") as f:
        f.write("\n[workspace]\n\n[lints.rust]\nunexpected_cfgs = { level = \"allow\" }\n")
    srcdir = os.path.join(crate, "src")
    files = [f for f in os.listdir(srcdir) if f.endswith(".rs")]
    tdir = os.path.join(srcdir, "transport")
    tfiles = [os.path.join("transport", f) for f in os.listdir(tdir) if f.endswith(".rs")] if os.path.isdir(tdir) else []
    for fn in files + tfiles:
        p = os.path.join(srcdir, fn)
        s = open(p).read()
        for where, pat, rep in REWRITES:
            if fn.startswith("transport") and where != "**":
                continue
            if where not in ("*", "**") and fn not in where:
                continue
            s = re.sub(pat, rep, s)
        body = _strip_tests(s)
        for pat, what in FORBIDDEN_AFTER:
            m = re.search(pat, body)
            if m:
                raise EncodingError(f"{fn}: un-modelled {what} reference survives the import rewrite: {m.group(0)!r}")
        open(p, "w").write(s)
    # prelude
    prelude = open(os.path.join(VERIF, "models", "vstd.rs")).read()
    prelude = prelude.replace("pub const CAP: usize = 4;", f"pub const CAP: usize = {cap};")
    prelude = prelude.replace("/*EMPTY_SLOTS*/", "[" + ", ".join(["None"] * cap) + "]")
    open(os.path.join(srcdir, "vstd.rs"), "w").write(prelude)
    with open(os.path.join(srcdir, "lib.rs"), "a") as f:
        f.write("\n#[cfg(kani)]\npub(crate) mod vstd;\n")
    # harness child modules
    for m in MODULES:
        hf = os.path.join(VERIF, "harness", f"h_{m}.rs")
        gen = gens.get(m, "")
        if not os.path.exists(hf) and not gen:
            continue
        target = os.path.join(srcdir, f"{m}.rs")
        if not os.path.exists(target):
            raise EncodingError(f"{m}.rs no longer exists in /repo/chitchat/src")
        with open(target, "a") as f:
            f.write(f"\n#[cfg(kani)]\npub(crate) mod verif_{m} {{\n    #![allow(unused_imports, dead_code, unused_variables, unused_mut)]\n    use super::*;\n")
            f.write(f"    include!(\"{os.path.join(VERIF, 'harness', 'common.rs')}\");\n")
            if os.path.exists(hf):
                f.write(f"    include!(\"{hf}\");\n")
            if gen:
                gp = os.path.join(srcdir, f"gen_{m}.rs")
                open(gp, "w").write(gen)
                f.write(f"    include!(\"{gp}\");\n")
            f.write("}\n")
    return crate


def source_digest() -> str:
    """sha256 over /repo/chitchat/src (reported in evidence so a reader can tell which tree was encoded)."""
    out = subprocess.run(
        "cd %s/chitchat/src && find . -name '*.rs' | sort | xargs sha256sum | sha256sum" % REPO,
        shell=True, capture_output=True, text=True).stdout.split()[0]
    return out
