"""Compiles harnesses with the Kani compiler and decides them with CBMC.

Pipeline per check run:
  1. `cargo kani --only-codegen` on the scratch crate for all selected harnesses (one rustc session per
     stub set): Kani's compiler turns the real chitchat MIR + models + harness into a GOTO binary.
  2. the same goto-cc / goto-instrument passes kani-driver applies (entry point, CPROVER library,
     assert-false bodies for undefined functions, one back-edge per loop target);
  3. `cbmc --show-loops` -> per-loop unwind bounds from rules keyed on the *demangled* function name
     (robust against the symbol hash changing with the crate path);
  4. `cbmc --json-ui` with Kani's own flag set (plus the check profile); JSON result parsed here.

kani-driver itself is bypassed for step 4 because it asks CBMC for verbosity-9 JSON and parses every
symex message: measured 296 s vs 21 s of symbolic execution on the same GOTO binary.
"""
import json
import os
import queue
import re
import resource
import shutil
import signal
import subprocess
import threading
import time
from dataclasses import dataclass, field

VERIF = os.path.dirname(os.path.dirname(os.path.abspath(__file__)))
CACHE = os.path.join(VERIF, ".cache")
KANI_LIB_C = os.path.expanduser("~/.kani/kani-0.68.0/library/kani/kani_lib.c")

# Kani also passes --nan-check; it is dropped here: producing a NaN is not a Rust panic, and server.rs computes a
# harmless 0/0 selection probability that is short-circuited before use.
BASE_FLAGS = ["--no-malloc-may-fail", "--no-undefined-shift-check", "--no-signed-overflow-check",
              "--no-self-loops-to-assumptions", "--no-pointer-primitive-check", "--object-bits", "16",
              "--slice-formula"]
# check profiles: what CBMC instruments *in addition to* the Rust-level assertions Kani's compiler emits
# (user asserts, panics, unwrap/expect, index bounds, arithmetic overflow, unreachable).
PROFILES = {
    # C-level pointer / array-bounds / division instrumentation off: the code under test is safe Rust and the
    # models are trusted; Rust-level panics are still asserted. Cuts VCCs ~20x.
    "logic": ["--no-pointer-check", "--no-bounds-check", "--no-div-by-zero-check"],
    # Kani's default instrumentation (memory safety of every dereference as well)
    "full": [],
}


@dataclass
class HarnessBin:
    name: str            # pretty name, e.g. state::verif_state::foo
    mangled: str
    gb: str              # instrumented goto binary (private copy in the work dir)
    unwind: int | None
    stubs: list
    instrumented: bool = False


@dataclass
class HarnessResult:
    name: str
    status: str = "error"  # success | failure | undetermined | timeout | oom | error | compile_error
    checks_total: int = 0
    checks_failed: list = field(default_factory=list)      # [(property id, description, location)]
    checks_undetermined: list = field(default_factory=list)
    covers: dict = field(default_factory=dict)             # description -> SATISFIED / UNSATISFIABLE
    vccs: int = 0
    vccs_generated: int = 0
    symex_s: float = 0.0
    solver_s: float = 0.0
    wall_s: float = 0.0
    log: str = ""
    stubs: list = field(default_factory=list)
    loops: int = 0
    unwindset: list = field(default_factory=list)
    program_steps: int = 0
    maxrss_mb: int = 0
    profile: str = ""
    unwind: int | None = None
    solver: str = ""
    sat_vars: int = 0
    sat_clauses: int = 0


class CodegenError(Exception):
    def __init__(self, msg, log=""):
        super().__init__(msg)
        self.log = log


def _env():
    env = dict(os.environ, CARGO_NET_OFFLINE="true")
    env.pop("RUSTFLAGS", None)
    env.pop("RUSTUP_TOOLCHAIN", None)
    return env


def codegen(crate: str, harnesses: list, work: str, target_dir: str | None = None, timeout: int = 1800) -> dict:
    """Returns {pretty name: HarnessBin}. Raises CodegenError when the scratch crate does not compile."""
    target_dir = target_dir or os.path.join(CACHE, "kani-target")
    os.makedirs(target_dir, exist_ok=True)
    cmd = ["cargo", "kani", "--target-dir", target_dir, "-Z", "stubbing", "-Z", "unstable-options", "--only-codegen", "--exact"]
    for h in harnesses:
        cmd += ["--harness", h]
    t0 = time.time()
    p = subprocess.run(cmd, cwd=crate, stdout=subprocess.PIPE, stderr=subprocess.STDOUT, text=True, env=_env(), timeout=timeout)
    log = p.stdout
    if p.returncode != 0:
        raise CodegenError("cargo kani --only-codegen failed", log)
    # locate metadata written during this invocation
    metas = []
    for root, _, files in os.walk(os.path.join(target_dir, "kani")):
        for f in files:
            if f.endswith(".kani-metadata.json") and f.startswith("chitchat-"):
                fp = os.path.join(root, f)
                if os.path.getmtime(fp) >= t0 - 2:
                    metas.append(fp)
    found = {}
    for mp in metas:
        try:
            md = json.load(open(mp))
        except Exception:
            continue
        for h in md.get("proof_harnesses", []):
            if h["pretty_name"] in harnesses and os.path.exists(h["goto_file"]):
                found[h["pretty_name"]] = h
    missing = [h for h in harnesses if h not in found]
    if missing:
        raise CodegenError("harnesses not produced by codegen: " + ", ".join(missing), log)
    gbdir = os.path.join(work, "gb")
    os.makedirs(gbdir, exist_ok=True)
    out = {}
    for name, h in found.items():
        linked = h["goto_file"].replace(".symtab.out", ".out")
        dst = os.path.join(gbdir, name.replace("::", "__") + ".out")
        shutil.copy(linked if os.path.exists(linked) else h["goto_file"], dst)
        out[name] = HarnessBin(name, h["mangled_name"], dst, h["attributes"].get("unwind_value"),
                               [f'{s["original"]} -> {s["replacement"]}'.replace(" :: ", "::") for s in h["attributes"].get("stubs", [])])
    # drop the per-hash build directories of this crate so that the shared target dir does not grow
    for mp in metas:
        d = os.path.dirname(os.path.dirname(mp))
        if os.path.basename(os.path.dirname(d)) == "chitchat":
            shutil.rmtree(d, ignore_errors=True)
    return out


def instrument(hb: HarnessBin) -> None:
    """The goto-cc / goto-instrument passes kani-driver runs before CBMC."""
    gb = hb.gb
    steps = [
        ["goto-cc", gb, "--function", hb.mangled, "-o", gb],
        ["goto-instrument", "--add-library", "--no-malloc-may-fail", gb, gb],
        ["goto-instrument", "--generate-function-body-options", "assert-false-assume-false",
         "--generate-function-body", ".*", "--drop-unused-functions", gb, gb],
        ["goto-instrument", "--ensure-one-backedge-per-target", gb, gb],
    ]
    for c in steps:
        p = subprocess.run(c, stdout=subprocess.PIPE, stderr=subprocess.STDOUT, text=True)
        if p.returncode != 0:
            raise CodegenError("instrumentation step failed: " + " ".join(c[:3]), p.stdout)
    hb.instrumented = True


LOOP_RE = re.compile(r"^Loop (\S+):\n\s+file (.*?) line (\d+)(?: column \d+)? function (.*?)\s*$", re.M)


def discover_loops(gb: str):
    q = subprocess.run(["cbmc", "--show-loops", gb], stdout=subprocess.PIPE, stderr=subprocess.STDOUT, text=True, timeout=600)
    return [(m.group(1), m.group(2), int(m.group(3)), m.group(4)) for m in LOOP_RE.finditer(q.stdout)]


def unwindset_from_rules(loops, rules):
    """rules: [(regex on the demangled function or the loop id, loop index or None, bound)]; first match wins."""
    out = []
    for lid, _file, _line, func in loops:
        idx = int(lid.rsplit(".", 1)[1])
        for pat, want_idx, bound in rules:
            if want_idx is not None and want_idx != idx:
                continue
            if re.search(pat, func) or re.search(pat, lid):
                out.append(f"{lid}:{bound}")
                break
    return out


def _limits(mem_gb: float):
    def f():
        os.setsid()
        try:
            resource.setrlimit(resource.RLIMIT_STACK, (resource.RLIM_INFINITY, resource.RLIM_INFINITY))
        except Exception:
            pass
        b = int(mem_gb * (1 << 30))
        resource.setrlimit(resource.RLIMIT_AS, (b, b))
    return f


IGNORED_CLASSES = {"reachability_check", "code_coverage"}
INCONCLUSIVE_CLASSES = {"unwind", "recursion", "unsupported_construct"}


def _prop_class(pid: str) -> str:
    parts = pid.rsplit(".", 2)
    return parts[-2] if len(parts) >= 2 else ""


def parse_json(text: str, res: HarnessResult) -> None:
    try:
        items = json.loads(text)
    except Exception:
        items = []
    status = None
    for it in items:
        if not isinstance(it, dict):
            continue
        mt = it.get("messageText")
        if mt:
            m = re.search(r"Generated (\d+) VCC\(s\), (\d+) remaining after simplification", mt)
            if m:
                res.vccs_generated, res.vccs = int(m.group(1)), int(m.group(2))
            m = re.search(r"Runtime Symex: ([0-9.e+-]+)s", mt)
            if m:
                res.symex_s = float(m.group(1))
            m = re.search(r"Runtime (?:decision procedure|Solver): ([0-9.e+-]+)s", mt)
            if m:
                res.solver_s += float(m.group(1))
            m = re.search(r"(\d+) variables, (\d+) clauses", mt)
            if m:
                res.sat_vars, res.sat_clauses = int(m.group(1)), int(m.group(2))
            m = re.search(r"size of program expression: (\d+) steps", mt)
            if m:
                res.program_steps = int(m.group(1))
            if re.search(r"out of memory|bad_alloc", mt, re.I):
                res.status = "oom"
        if "cProverStatus" in it:
            status = it["cProverStatus"]
        for r in it.get("result", []) or []:
            pid = r.get("property", "")
            cls = _prop_class(pid)
            desc = (r.get("description") or "").strip()
            st = r.get("status")
            sl = r.get("sourceLocation") or {}
            loc = f'{sl.get("file", "")}:{sl.get("line", "")} in {sl.get("function", "")}'
            if cls in IGNORED_CLASSES:
                continue
            if cls == "cover":
                desc = re.sub(r"^\[KANI_CHECK_ID_[^\]]*\]\s*", "", desc)
                res.covers[desc] = "SATISFIED" if st == "FAILURE" else ("UNSATISFIABLE" if st == "SUCCESS" else st)
                continue
            res.checks_total += 1
            if st == "FAILURE":
                if cls in INCONCLUSIVE_CLASSES:
                    res.checks_undetermined.append((pid, desc, loc))
                else:
                    res.checks_failed.append((pid, desc, loc))
            elif st not in ("SUCCESS",):
                res.checks_undetermined.append((pid, desc, loc))
    if status is None:
        if res.status != "oom":
            res.status = "error"
        return
    if res.checks_failed:
        res.status = "failure"
    elif res.checks_undetermined:
        res.status = "undetermined"
        # covers found on bounded paths stay valid; unsatisfiable ones are not trustworthy
        for k, v in list(res.covers.items()):
            if v != "SATISFIED":
                res.covers[k] = "UNDETERMINED"
    else:
        # cProverStatus is "failure" as soon as a cover/reachability property "fails": that is a pass here
        res.status = "success"


def run_cbmc(hb: HarnessBin, *, unwind: int | None = None, loop_rules: list | None = None, unwindset: list | None = None,
             profile: str = "logic", timeout: int = 600, mem_gb: float = 10, solver: str = "cadical",
             cbmc_extra: list | None = None, logdir: str | None = None, trace: bool = False, tag: str = "") -> HarnessResult:
    res = HarnessResult(hb.name)
    res.stubs = hb.stubs
    res.profile = profile
    res.solver = solver
    t0 = time.time()
    us = list(unwindset or [])
    if loop_rules:
        loops = discover_loops(hb.gb)
        res.loops = len(loops)
        us += unwindset_from_rules(loops, loop_rules)
    res.unwindset = us
    uw = unwind if unwind is not None else hb.unwind
    res.unwind = uw
    cmd = ["cbmc"] + BASE_FLAGS + PROFILES[profile]
    if uw is not None:
        cmd += ["--unwind", str(uw)]
    if us:
        cmd += ["--unwindset", ",".join(us)]
    if solver == "kissat":
        cmd += ["--external-sat-solver", "kissat"]
    else:
        cmd += ["--sat-solver", solver]
    if trace:
        cmd += ["--trace"]
    cmd += list(cbmc_extra or []) + [hb.gb, "--json-ui", "--verbosity", "8"]
    timef = hb.gb + tag + ".time"
    tcmd = ["/usr/bin/time", "-f", "MAXRSS_KB %M", "-o", timef] + cmd
    p = subprocess.Popen(tcmd, stdout=subprocess.PIPE, stderr=subprocess.PIPE, text=True, preexec_fn=_limits(mem_gb))
    timed_out = False
    try:
        out, err = p.communicate(timeout=timeout)
    except subprocess.TimeoutExpired:
        timed_out = True
        try:
            os.killpg(p.pid, signal.SIGKILL)
        except Exception:
            pass
        out, err = p.communicate()
    res.wall_s = time.time() - t0
    res.log = out if len(out) < 5_000_000 else out[:5_000_000]
    try:
        m = re.search(r"MAXRSS_KB (\d+)", open(timef).read())
        if m:
            res.maxrss_mb = int(m.group(1)) // 1024
    except Exception:
        pass
    if timed_out:
        res.status = "timeout"
    else:
        parse_json(out, res)
        if res.status == "error" and (p.returncode in (-6, 134, 6, -9, 137) or re.search(r"out of memory|bad_alloc", out + err, re.I)):
            res.status = "oom"
    if logdir:
        os.makedirs(logdir, exist_ok=True)
        with open(os.path.join(logdir, hb.name.replace("::", "__") + tag + ".json"), "w") as f:
            f.write(out)
            if err:
                f.write("\n/* stderr:\n" + err[-5000:] + "\n*/\n")
    return res


def run_many(bins: dict, jobs: list, *, parallel: int = 8, logdir: str | None = None, progress=None) -> list:
    """jobs: list of dicts(name=<pretty harness name>, **run_cbmc kwargs)."""
    q = queue.Queue()
    for j in jobs:
        q.put(j)
    results = []
    lock = threading.Lock()

    def worker():
        while True:
            try:
                j = q.get_nowait()
            except queue.Empty:
                return
            kw = {k: v for k, v in j.items() if k != "name"}
            hb = bins[j["name"]]
            try:
                if not hb.instrumented:
                    instrument(hb)
                r = run_cbmc(hb, logdir=logdir, **kw)
            except CodegenError as e:
                r = HarnessResult(j["name"], status="error", log=str(e) + "\n" + e.log)
            except Exception as e:  # noqa
                r = HarnessResult(j["name"], status="error", log=repr(e))
            with lock:
                results.append(r)
                if progress:
                    progress(r)

    n = max(1, min(parallel, len(jobs)))
    ts = [threading.Thread(target=worker) for _ in range(n)]
    for t in ts:
        t.start()
    for t in ts:
        t.join()
    order = {j["name"]: i for i, j in enumerate(jobs)}
    results.sort(key=lambda r: order.get(r.name, 0))
    return results


def extract_trace(json_text: str, pid: str, limit: int = 400) -> list:
    """Compact counterexample: assignments made in harness code (file under /verif/harness) along CBMC's trace."""
    try:
        items = json.loads(json_text)
    except Exception:
        return ["(trace output not parseable)"]
    out = []
    for it in items:
        if not isinstance(it, dict):
            continue
        for r in it.get("result", []) or []:
            if r.get("property") != pid or "trace" not in r:
                continue
            for st in r["trace"]:
                if st.get("stepType") != "assignment" or st.get("hidden"):
                    continue
                sl = st.get("sourceLocation") or {}
                f = sl.get("file", "")
                if "/verif/harness" not in f and "gen_" not in f:
                    continue
                val = st.get("value") or {}
                data = val.get("data", val.get("name"))
                if data is None:
                    continue
                lhs = st.get("lhs", "")
                if lhs.startswith("var_") or lhs.startswith("tmp") or "temp_" in lhs:
                    continue
                out.append(f'{os.path.basename(f)}:{sl.get("line")} {sl.get("function", "").split("::")[-1]}: {lhs} = {data}')
                if len(out) >= limit:
                    return out
    return out or ["(no harness-level assignments in the trace)"]
