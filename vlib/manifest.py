#!/usr/bin/env python3
"""Regenerates /verif/MANIFEST.json from the plan (claimed properties) and the texts below."""
import json
import os
import sys

VERIF = os.path.dirname(os.path.dirname(os.path.abspath(__file__)))
sys.path.insert(0, VERIF)
from vlib.plan import plan  # noqa: E402

TECH = "bounded symbolic execution of the real code: Kani 0.68 compiler -> CBMC 6.11 (SAT, cadical), per-loop unwinding assertions, environment modelled"
NOTE_COMMON = ("Trusted base: Kani's MIR->GOTO translation and CBMC; the environment models of /verif/models/vstd.rs (slot-array std collections, tokio Instant/watch, lru, zstd, rand, "
               "anyhow, tracing, itertools::sorted) substituted by import rewriting - no chitchat function body is modified; CBMC profile 'logic' (Rust-level panics/asserts/overflow "
               "checked, C-level pointer instrumentation off). Bounds per query are in the evidence file; everything outside them is outside the claim.")

TEXT = {
    "C01": ("The progress sentence of the property is decided as a step: for every sender copy and every receiver copy in scope, the delta an honest sender emits from the receiver's own digest "
            "strictly raises the receiver's (watermark, max version) whenever the sender is ahead and one op beyond the header fits (real NodeState::apply_delta; real per-member sender decision, "
            "offer filter checked against the same reference model; the whole real delta computation incl. the empty-tail SetMaxVersion with nothing refused, quick; every truncation point, thorough). The bounded-number-of-handshakes ranking argument, fairness of the shuffle and 3..5-node "
            "composition are argued in DESIGN.md, not mechanised.", "3"),
    "C02": ("Inductive invariant (I1-I4 over a symbolic owner ledger) + one step of the real code from an arbitrary pre-state: receiver step (real apply_delta on the honest delta computed from any "
            "earlier digest, truncated anywhere) and tombstone-GC step (real gc_keys_marked_for_deletion at any instant). The sender's content/decision are checked against the reference model on the "
            "real functions. One inductive step covers histories of any length inside the bound; known finding KF-1 is the only non-inductive case and is reported as such.", "3"),
    "C03": ("Same invariant/step scheme as C02 for I1 (not ahead of the owner) and I2 (every held entry is an owner write with that version and status), plus delta content copied verbatim "
            "(real StaleNode::stale_key_values vs reference).", "3"),
    "C04": ("Local write API on every shaped state (fresh version = max+1, same-value set no-op); real apply_delta on EVERY (copy, delta) pair in scope whether or not an honest sender could have "
            "produced it (frontier lexicographically monotone, key versions monotone unless a reset strictly raises the watermark, rejected deltas change nothing); GC step monotone.", "4"),
    "C06": ("Differential against a 40-line reference versioned map inside the harness: one local operation (set / set_with_ttl / delete / delete_after_ttl / GC, clock and grace period symbolic "
            "at nanosecond resolution) from an arbitrary well-formed state over prefix-related keys incl. the empty key, then every read compared. One step from an arbitrary state stands for "
            "sequences of any length (invariant-step); sequences are not unrolled.", "4"),
    "C10": ("Real SamplingWindow/BoundedArrayStats/phi with the clock as a solver variable and IEEE-754 doubles bit-precisely: exact short histories (window 1..3, 2..5 arrivals incl. dropped "
            "over-long intervals and ring wrap-around) and arbitrary window contents (len 1..1000, sum anywhere in its admissible interval) followed by silence beyond the bound => phi above the "
            "threshold; classification glue of update_node_liveness. Configurations are enumerated (5), not symbolic: symbolic x symbolic double division does not finish.", "4"),
    "C11": ("Float part: steady heartbeats in [a,b] stay within the threshold (exact short histories and arbitrary windows); fewer than two fresh heartbeats => no phi. "
            "Classification glue (alive iff phi <= threshold, window cleared while dead).", "4"),
    "C05": ("Three pieces of the mechanism, each on the real code: (i) a delta section whose max version and watermark are not above the copy it is applied to (the owner is the most advanced "
            "copy, C03's invariant for every honest source) is rejected by the real apply_delta and changes nothing; (ii) the real per-member sender decision offers nothing when its copy is not "
            "ahead of the digest; (iii) the real Chitchat::report_heartbeat ignores the node's own id in a digest. The message-level glue (process_message) does not fit the solver and is not executed.", "4"),
    "C07": ("Size part: (i) the real process_message(Syn) with the delta computation replaced by its contract ('any announced length within the budget it is handed') never yields a SYN-ACK above 65,507 "
            "bytes and can fill the datagram exactly (finding O-1, fixed); (ii) the real CompressedStreamWriter under the any-length codec model never produces more bytes than the upper bound it "
            "announced before the last append (items up to one block, thresholds 8/16). Content part: real StaleNode::stale_key_values = exactly the entries above the start version, ascending; "
            "scheduled-for-deletion members skipped; the whole real compute_partial_delta_respecting_mtu against the reference model for concrete acceptance patterns of the serializer calls "
            "(quick) and for every truncation point (thorough). NOT covered: the ACK budget line (SynAck arm does not fit), items longer than one block (observation O-2), real payload sizes.", "4"),
    "C09": ("Structure-aware part only: the real DeltaBuilder on op sequences of every kind pattern up to 3 ops (grouping, duplicate members, ops without header, non-increasing versions, "
            "SetMaxVersion below received key-values - finding F-3, fixed) and the real apply_delta on every delta the decoder can admit (no panic, frontier monotone, hence the monotonicity assert "
            "of ClusterState::apply_delta is unreachable). Byte-level decoding of arbitrary buffers does not fit (deserialize_stream allocates and scans a 64 KiB block buffer) and is NOT claimed.", "4"),
    "C12": ("Detector level: scheduled-for-deletion after half the grace period and removal at the full period (clock symbolic at ns resolution), classification exclusive (exactly one of "
            "live/dead, time of death kept), re-creation guard of report_heartbeat (recreated only by a strictly higher heartbeat, without liveness evidence), scheduled members skipped by the real "
            "delta computation. Chitchat::update_nodes_liveness as a whole does not fit the solver and is not executed.", "4"),
    "C15": ("Real Listeners/InnerListeners dispatch with up to two subscriptions (prefixes concrete per query from {'', a, e-acute, a+e-acute, 4-byte emoji}), key symbolic over all strings of <= 2 symbols of a "
            "1/2/4-byte alphabet, dropped and forever() handles: each live subscription called exactly once iff its prefix is a prefix of the key, with the stripped key; no panic for any key of <= 2 "
            "arbitrary chars (finding F-2, fixed). Up to 8 prefixes / longer strings are outside the bound.", "4"),
    "C17": ("Real select_nodes_for_gossip and its two helpers with every random draw symbolic (rand's sampling modelled by contract): universe of up to 4 addresses with symbolic membership in "
            "peers/live/dead/seeds.", "4"),
    "C16": ("Real Chitchat::process_message on a SYN whose cluster id is ANY ASCII string of 0..=2 bytes different from the node's own id (own id 'c', '' or 'cc'; covers empty, "
            "prefix-of-each-other and case variants): the reply is BadCluster only, the digest-processing entry points are never reached (marker stubs), membership, member copies and "
            "failure-detector maps are unchanged, the own state changes by one heartbeat tick only; and a BadCluster reply is terminal for the initiator. The multi-node / any-schedule "
            "sentence follows by argument only (a foreign node's state can enter solely through an accepted SYN: SynAck/Ack are only ever sent in answer to one), it is not encoded.", "4"),
    "C20": ("Decomposed by contract, every piece on the real code: (1) real Chitchat::process_message / process_delta for each message kind with ClusterState::apply_delta replaced by 'returns ANY bool': "
            "the delta of a SynAck/Ack is applied exactly once, Syn/BadCluster apply nothing, and the callback runs exactly once per message iff the flag was true (two messages in a row included), never without a "
            "configured callback; (2) real ClusterState::apply_delta over 2-3 sections (known/unknown members) with NodeState::apply_delta replaced by 'returns ANY status': flag = OR over sections; "
            "(3) real NodeState::apply_delta on every copy shape (empty/just created, keyed, mid-reset) and ANY section: ApplyAfterReset iff the copy is behind an unseen collection and the section restarts "
            "from 0, and nothing from before the reset survives.", "4"),
    "C14": ("Both coded decisions run from the real code on the same symbolic frontiers: the sender's per-member reset decision / start version (real compute_partial_delta_respecting_mtu) and the "
            "receiver's admission (real check_delta_status/apply_delta) agree for ALL u64 frontiers (key-less) and for 3-key copies with versions 0..7 at every truncation point.", "4"),
}


def main():
    P = plan()
    props = [json.loads(l) for l in open(os.path.join(VERIF, "properties.jsonl"))]
    na_reasons = json.load(open(os.path.join(VERIF, "not_applicable.json")))
    checks = []
    for p in props:
        pid = p["id"]
        if pid not in P or pid not in TEXT:
            continue
        text, ref = TEXT[pid]
        checks.append(dict(
            property_id=pid,
            quick_cmd=f"./check {pid} --tier quick",
            thorough_cmd=f"./check {pid} --tier thorough",
            evidence_file=f"/verif/evidence/{pid}.json",
            replay_cmd_template=f"./check {pid} --replay {{path}}",
            engine="kani-cbmc",
            level_claimed=dict(category="model_checking", text=text, design_ref=f"DESIGN.md section {ref}, per-property notes"),
            level_note=NOTE_COMMON,
            technique=TECH,
        ))
    claimed = {c["property_id"] for c in checks}
    na = [dict(property_id=p["id"], reason=na_reasons.get(p["id"], "check not built in this round; see DESIGN.md")) for p in props if p["id"] not in claimed]
    m = dict(
        version=1,
        setup_cmd="./setup.sh",
        hooks=dict(guard="none", enable="no source hooks: every check copies /repo/chitchat into a scratch crate under /verif/.work, rewrites environment imports to /verif/models/vstd.rs and appends #[cfg(kani)] harness modules",
                   baseline_off_cmd="cd /repo && RUSTUP_TOOLCHAIN=1.88.0 cargo test --workspace --no-fail-fast --offline", source_commits=[], add_only=True),
        engines=[dict(name="kani-cbmc", path="/verif/check", serves_properties=sorted(claimed),
                      kind_free_text="Kani 0.68 compiler (cargo kani --only-codegen) + goto-instrument + CBMC 6.11 driven directly (vlib/kani.py); cadical SAT back end")],
        checks=checks,
        not_applicable=na,
        notes="Exit codes of ./check: 0 held on everything explored; 1 + VIOLATION line: counterexample (replay file holds CBMC's concrete trace); 2: inconclusive (never a pass, never an alarm). "
              "Known findings are in known_findings.json.",
    )
    json.dump(m, open(os.path.join(VERIF, "MANIFEST.json"), "w"), indent=1)
    print("claimed:", sorted(claimed))
    print("not applicable:", [x["property_id"] for x in na])


if __name__ == "__main__":
    main()
