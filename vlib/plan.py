"""Which harness queries decide which property, per tier, with their bounds (stated in the evidence)."""

# ---- loop-bound rules: (regex on demangled function / loop id, loop index or None, bound)
R_COMMON = [
    (r"^memcmp", None, 6),                      # ids/keys are 1 byte, IPv4 octets 4 bytes (+1, +1 slack)
    (r"verif_\w+::(any_ledger|latest|inv_i\d)", None, 9),   # LMAX = 8 ledger slots
]
R_STATE = R_COMMON + [
    (r"compute_partial_delta_respecting_mtu", 0, 4),   # members (<= CAP=3) + 1
    (r"compute_partial_delta_respecting_mtu", 1, 4),   # keys (<=3) + 1
    (r"compute_partial_delta_respecting_mtu", 2, 4),
    (r"NodeState::apply_delta", None, 4),              # key-values (<=3) + 1
    (r"ClusterState::apply_delta", None, 3),           # member sections (<=2) + 1
]

MASKS3 = [0b000, 0b001, 0b010, 0b100, 0b011, 0b101, 0b110, 0b111]
QUICK_MASKS = [0b000, 0b011]
COV_RCV = ["reset taken", "incremental delta with two key-values applied", "delta rejected", "delta truncated", "receiver mid-reset"]

F_APPLY = ["state.rs::NodeState::apply_delta", "state.rs::NodeState::check_delta_status", "state.rs::NodeState::reset_node",
           "state.rs::NodeState::set_versioned_value", "types.rs::DeletionStatusMutation::into_status"]
F_SENDER = ["state.rs::ClusterState::compute_partial_delta_respecting_mtu"]


def H(name, body, *, mod="state", macro="h_plain", unwind=4, tiers=("quick", "thorough"), covers=(), rules=None,
      timeout=900, mem=8, desc="", funcs=(), bounds=None, cuts=(), profile="logic", cap=3):
    return dict(name=name, body=body, mod=mod, macro=macro, unwind=unwind, tiers=tiers, covers=list(covers),
                rules=rules if rules is not None else R_STATE, timeout=timeout, mem=mem, desc=desc, funcs=list(funcs),
                bounds=bounds or {}, cuts=list(cuts), profile=profile, cap=cap)


def m3(mask):
    return format(mask, "03b")


CUT_LISTENER = "Listeners::trigger_event stubbed to a no-op (listener dispatch is C15's subject)"
CUT_REC = "DeltaSerializer::{with_mtu,try_add_node,try_add_kv,try_set_max_version,finish} replaced by the op recorder of harness/h_delta.rs (contract checked by the ser_* harnesses)"
CUT_OFFER = "SortedStaleNodes::offer replaced by a recorder, so the serialization loop of the same function sees no stale node"
B3 = {"keys": "<=3 (one byte each)", "versions_watermarks": "0..=7 symbolic", "statuses": "Set/Deleted/DeleteAfterTtl symbolic", "members": 1, "map_capacity": 3}


def rcv(prop, pconst, mask, *, own, ledger, vmax=7, tiers=("quick", "thorough"), covers=COV_RCV):
    return H(f"rcv_{prop.lower()}_{m3(mask)}{'_own' if own else '_old'}",
             f"{{ select({pconst}); rcv_step({mask}, {vmax}, {str(own).lower()}, {str(ledger).lower()}) }}",
             tiers=tiers, covers=covers, funcs=F_APPLY, cuts=[CUT_LISTENER],
             bounds=dict(B3, receiver_mask=m3(mask), versions_watermarks=f"0..={vmax} symbolic", sender_copy="fully symbolic (presence included)",
                         digest="receiver's own current digest" if own else "any digest lexicographically at or below the receiver's frontier (delay/duplication/reordering)",
                         truncation="0..=4 accepted ops, symbolic", ledger="symbolic owner ledger of <=7 writes, invariants I1-I4 assumed on both copies" if ledger else "none"),
             desc="real NodeState::apply_delta applied to the delta the reference sender emits from a symbolic sender copy", mem=8, timeout=1500)


def snd_decision(two, tiers):
    return H(f"snd_decision_{2 if two else 1}", f"snd_decision({str(two).lower()})", macro="h_rec_offer", tiers=tiers,
             covers=["reset decided for a known member", "member scheduled for deletion", "member unknown to the peer"],
             funcs=F_SENDER + ["state.rs lines 640-673 (skip / reset decision / start version)"], cuts=[CUT_LISTENER, CUT_REC, CUT_OFFER],
             bounds={"members": 2 if two else 1, "frontiers": "u64 full width, symbolic", "digest_membership": "symbolic", "scheduled_for_deletion": "symbolic"},
             desc="per-member sender decision of the real delta computation against the reference model", timeout=1200)


def snd_offer(mask, tiers):
    return H(f"snd_offer_{m3(mask)}", f"snd_offer({mask}, 7)", tiers=tiers, funcs=["state.rs::SortedStaleNodes::offer", "state.rs::staleness_score", "state.rs::SortedStaleNodes::into_iter"],
             cuts=[CUT_LISTENER, "single-member shuffle cut (asserts <=1 element)"], bounds=dict(B3, sender_mask=m3(mask), start_version="u64 symbolic"),
             desc="a member is offered iff its max version is above the start version")


def snd_content(mask, tiers):
    return H(f"snd_content_{m3(mask)}", f"snd_content({mask}, 7)", tiers=tiers, covers=["two stale entries"] if bin(mask).count("1") >= 2 else [],
             funcs=["state.rs::StaleNode::stale_key_values", "state.rs::NodeState::stale_key_values"], cuts=[CUT_LISTENER],
             bounds=dict(B3, sender_mask=m3(mask), start_version="u64 symbolic"),
             desc="delta content = exactly the entries above the start version, ascending by version")


def r_snd(mask):
    """tight per-loop bounds for the single-member whole-function sender queries"""
    keys = bin(mask).count("1")
    return R_COMMON + [(r"compute_partial_delta_respecting_mtu", 0, 2), (r"compute_partial_delta_respecting_mtu", 1, keys + 2),
                       (r"compute_partial_delta_respecting_mtu", 2, 2), (r"verif_state::snd_full_pat", None, 7)]


def snd_full(mask, tiers=("thorough",)):
    return H(f"snd_full_{m3(mask)}", f"snd_full({mask}, 7)", macro="h_rec", tiers=tiers, rules=r_snd(mask),
             covers=(["truncated between key-values"] if mask else []) + (["SetMaxVersion for an empty tail"]),
             funcs=F_SENDER + ["state.rs::SortedStaleNodes::*", "state.rs::StaleNode::stale_key_values"], cuts=[CUT_LISTENER, CUT_REC, "single-member shuffle cut"],
             bounds=dict(B3, sender_mask=m3(mask), digest="symbolic u64 pair", truncation="0..=5 accepted ops, symbolic"),
             desc="whole real delta computation, recorded ops == reference model at every truncation point", timeout=3000, mem=40)


def snd_pat(mask, pattern, label, tiers, covers=()):
    return H(f"snd_pat_{m3(mask)}_{label}", f"snd_full_pat({mask}, 7, {pattern})", macro="h_rec", tiers=tiers, covers=list(covers),
             rules=r_snd(mask),
             funcs=F_SENDER + ["state.rs::SortedStaleNodes::*", "state.rs::StaleNode::stale_key_values", "state.rs lines 676-699 (stop at first refusal, SetMaxVersion iff nothing added)"],
             cuts=[CUT_LISTENER, CUT_REC, "single-member shuffle cut"],
             bounds=dict(B3, sender_mask=m3(mask), digest="symbolic u64 pair", acceptance_pattern=f"{label} (A = the i-th serializer call fits, R = it does not; also covers 'a large op is refused, a later smaller one fits')"),
             desc="whole real delta computation with a concrete acceptance pattern of the serializer calls, recorded ops == reference model", timeout=2400, mem=20)


def sender_pieces(quick_full=False):
    hs = [snd_decision(False, ("quick", "thorough")), snd_decision(True, ("thorough",)),
          snd_offer(0b011, ("quick", "thorough")), snd_offer(0b000, ("thorough",)), snd_offer(0b111, ("thorough",)),
          snd_content(0b011, ("quick", "thorough")), snd_content(0b111, ("thorough",)), snd_content(0b001, ("thorough",))]
    return hs


def plan():
    P = {}
    c14_scalar = H("c14_scalar_h", "c14_scalar()", covers=["reset taken", "mid-reset receiver, incremental"], funcs=F_APPLY,
                   bounds={"keys": 0, "frontiers": "u64 full width, symbolic", "truncation": "0..=2 accepted ops"}, cuts=[CUT_LISTENER],
                   desc="sender/receiver agreement on all u64 frontiers, key-less copies")
    # ---------------- C14
    P["C14"] = [c14_scalar, snd_decision(False, ("quick", "thorough")), snd_decision(True, ("thorough",)),
                snd_offer(0b011, ("quick", "thorough")), snd_offer(0b000, ("thorough",))] + \
        [rcv("C14", "P_C14", m, own=True, ledger=False, tiers=("quick", "thorough") if m in QUICK_MASKS else ("thorough",)) for m in MASKS3] + \
        [snd_full(0b000), snd_full(0b001)]
    # ---------------- C01 (progress step)
    P["C01"] = [c14_scalar, snd_decision(False, ("quick", "thorough")), snd_decision(True, ("thorough",)),
                snd_offer(0b011, ("quick", "thorough")), snd_offer(0b111, ("thorough",))] + \
        [rcv("C01", "P_C01", m, own=True, ledger=False, tiers=("quick", "thorough") if m in (0b001, 0b110) else ("thorough",)) for m in MASKS3] + \
        [snd_full(0b000), snd_full(0b001), snd_pat(0b001, 0b111111, "AAAAAA", ("quick", "thorough"), ["SetMaxVersion for an empty tail"]), snd_pat(0b001, 0b101, "ARA", ("thorough",), ["truncated between key-values"])]
    # ---------------- C02 (ledger invariants I3, I4)
    P["C02"] = [rcv("C02", "P_C02", m, own=False, ledger=True, vmax=6, tiers=("quick", "thorough") if m in (0b001, 0b011) else ("thorough",)) for m in MASKS3] + \
        [snd_content(0b011, ("quick", "thorough")), snd_content(0b111, ("thorough",)), snd_decision(False, ("quick", "thorough"))] + \
        [H(f"rcv_kf1_{m3(m)}", f"{{ select(P_KF1); rcv_step({m}, 6, false, true) }}", tiers=("quick", "thorough") if m == 0b001 else ("thorough",),
           covers=[], funcs=F_APPLY, cuts=[CUT_LISTENER], bounds=dict(B3, receiver_mask=m3(m)), desc="KNOWN-FINDING witness KF-1", mem=8, timeout=1500) for m in (0b001, 0b011)]
    # ---------------- C03 (I1, I2 + grouping + heartbeat in other modules)
    P["C03"] = [rcv("C03", "P_C03", m, own=False, ledger=True, vmax=6, tiers=("quick", "thorough") if m in (0b000, 0b011) else ("thorough",)) for m in MASKS3] + \
        [snd_content(0b011, ("quick", "thorough")), snd_content(0b111, ("thorough",)), snd_full(0b001), snd_pat(0b001, 0b110, "RAA", ("quick", "thorough")), snd_pat(0b001, 0b111111, "AAAAAA", ("thorough",), ["SetMaxVersion for an empty tail"])]
    # ---------------- C04
    P["C04"] = [H(f"c04_local_{m3(m)}", f"c04_local_write({m}, 7)", tiers=("quick", "thorough") if m in (0b011,) else ("thorough",),
                  covers=["no-op write", "effective delete"] if m else [], funcs=["state.rs::NodeState::{set,set_with_ttl,delete,delete_after_ttl,set_with_version,set_versioned_value}"],
                  cuts=[CUT_LISTENER], bounds=dict(B3, mask=m3(m), clock="symbolic instant"), desc="local write API: fresh version = max+1, same-value set is a no-op") for m in (0b000, 0b011, 0b111)] + \
        [H(f"c04_any_{m3(m)}_{n}", f"c04_any_delta({m}, {n}, 7)", tiers=("quick", "thorough") if (m, n) in ((0b011, 2),) else ("thorough",),
           covers=["reset taken", "incremental", "rejected"] if n else ["reset taken", "rejected"], funcs=F_APPLY, cuts=[CUT_LISTENER],
           bounds=dict(B3, receiver_mask=m3(m), delta="any header (from, watermark, max in 0..=7), %d key-values with strictly increasing versions, any keys/statuses, max = last version (what an honest serializer emits)" % n),
           desc="real apply_delta on every (copy, delta) pair in scope, honest or not") for m in (0b000, 0b001, 0b011, 0b111) for n in (0, 1, 2, 3)] + \
        [rcv("C04", "P_C04", m, own=False, ledger=False, tiers=("quick", "thorough") if m == 0b001 else ("thorough",)) for m in (0b001, 0b110)]
    # ---------------- S2 (tombstone GC step) joins C02/C03/C04
    def gc(prop, pconst, m, tiers):
        return H(f"gc_{prop.lower()}_{m3(m)}", f"{{ select({pconst}); gc_step({m}, 6) }}", unwind=5, tiers=tiers,
                 covers=["entry collected exactly at the grace boundary"] if m else [], funcs=["state.rs::NodeState::gc_keys_marked_for_deletion", "types.rs::DeletionStatus::time_of_start_scheduled_for_deletion"],
                 cuts=[CUT_LISTENER], bounds=dict(B3, mask=m3(m), clock="symbolic now / tombstone instants / grace period (nanosecond resolution)", ledger="symbolic owner ledger, I1-I4 assumed"),
                 desc="tombstone GC at an arbitrary instant from an arbitrary copy satisfying I1-I4")
    P["C02"] += [gc("C02", "P_C02", m, ("quick", "thorough") if m == 0b011 else ("thorough",)) for m in (0b011, 0b111, 0b001)]
    P["C03"] += [gc("C03", "P_C03", m, ("quick", "thorough") if m == 0b011 else ("thorough",)) for m in (0b011, 0b111)]
    P["C04"] += [gc("C04", "P_C04", m, ("quick", "thorough") if m == 0b011 else ("thorough",)) for m in (0b011, 0b111)]
    # ---------------- C06: differential against a reference versioned map
    OPS = {0: "set", 1: "set_with_ttl", 2: "delete", 3: "delete_after_ttl", 4: "gc"}
    RS = {0: "point reads+counts", 1: "full iterations", 2: "iter_prefix('')", 3: "iter_prefix('a')", 4: "iter_prefix('ab')", 5: "iter_prefix('b')"}
    R_C06 = R_COMMON
    def c06(mask, op, k, rsid, tiers):
        covers = []
        if op == 4 and rsid == 0 and mask:
            covers = ["collected exactly at the grace boundary"]
        return H(f"c06_{format(mask, '04b')}_{OPS[op]}{k}_r{rsid}", f"c06_model({mask}, {op}, {k}, {rsid})", unwind=5, tiers=tiers, covers=covers, rules=R_C06, cap=4,
                 funcs=["state.rs::NodeState::{set,set_with_ttl,delete,delete_after_ttl,gc_keys_marked_for_deletion,get,get_versioned,contains_key,key_values,key_values_including_deleted,num_key_values,iter_prefix}", "types.rs::VersionedValue::is_deleted"],
                 cuts=[CUT_LISTENER], timeout=1800, mem=12 if rsid >= 1 else 8,
                 bounds={"keys": "alphabet {'', 'a', 'ab', 'b'}, presence mask " + format(mask, "04b"), "values": "{'', 'x', 'y'} symbolic", "versions": "1..=1000 symbolic, distinct",
                         "statuses": "symbolic", "clock": "symbolic instants, grace period symbolic (ns resolution)", "operation": f"{OPS[op]} on key index {k} (one step from an arbitrary well-formed state)", "reads": RS[rsid], "map_capacity": 4},
                 desc="one local operation from an arbitrary state, all reads of the read set compared with the reference map")
    q = [(0b0110, 0, 1, 0), (0b0110, 0, 1, 1), (0b0111, 1, 2, 0), (0b0011, 2, 1, 0), (0b0011, 2, 2, 0), (0b0110, 3, 1, 0), (0b0111, 4, 0, 0), (0b0110, 4, 0, 1),
         (0b0110, 4, 0, 3), (0b0110, 2, 1, 3), (0b0011, 0, 0, 2), (0b1010, 1, 3, 5), (0b0101, 1, 2, 0)]
    P["C06"] = [c06(m, op, k, r, ("quick", "thorough")) for (m, op, k, r) in q]
    seen = set(q)
    for m in (0b0000, 0b0110, 0b1011):
        for op in range(5):
            for k in ((0, 1, 2, 3) if op < 4 else (0,)):
                for r in ((0,) if m != 0b0110 else (0, 1)):
                    if (m, op, k, r) not in seen and not (m == 0b1111 and op == 4):
                        seen.add((m, op, k, r))
                        P["C06"].append(c06(m, op, k, r, ("thorough",)))
    # ---------------- C10 / C11: failure detector
    F_FD = ["failure_detector.rs::SamplingWindow::{new,report_heartbeat,phi,reset}", "failure_detector.rs::BoundedArrayStats::{append,clear,len,sum}", "failure_detector.rs::AdditiveSmoothing::compute_mean"]
    CFG = {0: "phi 8, max 10 s, initial 5 s", 1: "phi 0.5, max 1 s, initial 1 s", 2: "phi 16, max 100 s, initial 1000 s", 3: "phi 2, max 1000 s, initial 10 s", 4: "phi 4, max 3 s, initial 7 s"}
    def fdh(name, body, covers, tiers, desc, bounds, funcs=F_FD, timeout=900, mem=6):
        return H(name, body, mod="failure_detector", macro="h_fd", unwind=6, tiers=tiers, covers=covers, rules=R_COMMON, funcs=funcs, bounds=bounds, desc=desc, timeout=timeout, mem=mem,
                 cuts=["clock = vstd::time::NOW (solver variable)", "durations on a whole-second grid (c10_half_*: whole seconds + a concrete half second)", "configuration enumerated (symbolic x symbolic double division stalls bit-blasting)"])
    def hist(cfg, w, n, tiers):
        cov = ["alive verdict reachable"] + (["an over-long interval was dropped, others kept"] if n >= 3 else []) + (["ring wrapped around"] if n - 1 > w else [])
        return fdh(f"c10_hist_{cfg}_{w}_{n}", f"c10_history({cfg}, {w}, {n})", cov, tiers, "exact short heartbeat history through the real report path, then silence",
                   {"config": CFG[cfg], "window": w, "arrivals": n, "gaps": "0..3 x max_interval, symbolic whole seconds", "silence": "symbolic"})
    def histh(cfg, w, n, tiers):
        return fdh(f"c10_half_{cfg}_{w}_{n}", f"c10_history_half({cfg}, {w}, {n})", ["a sub-second-carrying interval was retained"], tiers, "exact windowed sum off the whole-second grid (each gap = symbolic whole seconds + a concrete half second) through the real report path",
                   {"config": CFG[cfg], "window": w, "arrivals": n, "gaps": "k + 0.5 s, k symbolic in 0..2 x max_interval"})
    def steady(cfg, w, n, tiers):
        return fdh(f"c11_steady_{cfg}_{w}_{n}", f"c11_steady({cfg}, {w}, {n})", ["dead verdict reachable"] if cfg == 1 and n >= 2 else [], tiers, "steady heartbeats with gaps in [a,b] stay within the threshold",
                   {"config": CFG[cfg], "window": w, "arrivals": n, "a,b": "symbolic, 1 s <= a <= b <= max_interval"})
    def steadyh(cfg, w, n, tiers):
        return fdh(f"c11_half_{cfg}_{w}_{n}", f"c11_steady_half({cfg}, {w}, {n})", ["sub-second steady interval"], tiers, "steady heartbeats with gaps in [a,b] off the whole-second grid (k + 0.5 s) stay within the threshold",
                   {"config": CFG[cfg], "window": w, "arrivals": n, "a,b": "k + 0.5 s, 0.5 s <= a <= b <= max_interval"})
    def absw(cfg, compl, tiers):
        return fdh(f"{'c10' if compl else 'c11'}_abs_{cfg}", f"window_abstract({cfg}, 1000, {str(compl).lower()})", ["alive verdict reachable"] if compl else ["dead verdict reachable"], tiers,
                   "arbitrary window contents (long histories in the abstract): len 1..=1000, sum in [len*lo, len*hi], hi <= max_interval",
                   {"config": CFG[cfg], "window": 1000, "assumption": "the incrementally maintained sum stays within [len*lo, len*hi] (checked exactly for short histories by c10_hist_*)"})
    def classify(cfg, tiers):
        return fdh(f"fd_classify_{cfg}", f"fd_classify({cfg})", ["classified live", "classified dead with a window"], tiers, "FailureDetector::update_node_liveness classification glue over an arbitrary window",
                   {"config": CFG[cfg], "window": 4}, funcs=["failure_detector.rs::FailureDetector::{update_node_liveness,phi}"] + F_FD, timeout=1500, mem=8)
    P["C10"] = [hist(0, 1, 2, ("quick", "thorough")), hist(0, 1, 3, ("quick", "thorough")), hist(0, 2, 4, ("quick", "thorough")), hist(4, 2, 4, ("quick", "thorough")), absw(0, True, ("quick", "thorough")), absw(2, True, ("quick", "thorough")),
                classify(0, ("quick", "thorough")), histh(4, 2, 4, ("quick", "thorough"))] + \
        [hist(c, w, n, ("thorough",)) for c in (1, 2, 3, 4) for (w, n) in ((1, 3), (2, 4), (3, 5), (1, 4))] + [hist(0, 3, 5, ("thorough",)), hist(0, 1, 4, ("thorough",))] + \
        [absw(c, True, ("thorough",)) for c in (1, 3, 4)] + [classify(c, ("thorough",)) for c in (1, 4)]
    P["C11"] = [steady(0, 2, 3, ("quick", "thorough")), steady(4, 2, 3, ("quick", "thorough")), steady(1, 1, 2, ("quick", "thorough")), steady(0, 1, 1, ("quick", "thorough")), absw(0, False, ("quick", "thorough")), absw(4, False, ("quick", "thorough")),
                classify(0, ("quick", "thorough")), histh(4, 2, 4, ("quick", "thorough")), steadyh(4, 2, 3, ("quick", "thorough"))] + \
        [steady(c, w, n, ("thorough",)) for c in (1, 2, 3, 4) for (w, n) in ((1, 3), (2, 4), (3, 4))] + [absw(c, False, ("thorough",)) for c in (1, 2, 3)]
    # ---------------- C05
    lib_rules = R_STATE
    def libh(name, body, covers, tiers, desc, funcs, bounds, mem=16, timeout=1800):
        return H(name, body, mod="lib", macro="h_lib", unwind=4, tiers=tiers, covers=covers, rules=lib_rules, funcs=funcs, bounds=bounds, desc=desc, mem=mem, timeout=timeout,
                 cuts=[CUT_LISTENER, "Chitchat built by struct literal with the smallest configuration (window 2, cluster id 'c', ids 1 byte)"])
    def lib_hb(sit, tiers, mem=16):
        names = {0: "member absent", 1: "member present (stored heartbeat symbolic)", 2: "member remembered as garbage collected", 3: "the node's own id"}
        cov = {1: ["fresh heartbeat reported to the detector"], 2: ["garbage-collected member recreated by a higher heartbeat"]}.get(sit, [])
        return libh(f"lib_hb_{sit}", f"lib_report_heartbeat({sit})", cov, tiers, "real Chitchat::report_heartbeat / NodeState::try_set_heartbeat / FailureDetector::report_heartbeat",
                    ["lib.rs::Chitchat::report_heartbeat", "state.rs::NodeState::try_set_heartbeat", "state.rs::ClusterState::{node_state_mut_or_init,last_heartbeat_if_deleted,remove_node}", "failure_detector.rs::FailureDetector::report_heartbeat"],
                    {"situation": names[sit], "heartbeats": "u64 full width, symbolic"}, mem=mem)
    def c05(mask, n, tiers):
        return H(f"c05_{m3(mask)}_{n}", f"c05_not_ahead({mask}, {n}, 7)", tiers=tiers, covers=["section with key-values"] if n else [], funcs=F_APPLY, cuts=[CUT_LISTENER],
                 bounds=dict(B3, owner_mask=m3(mask), delta="any section with %d key-values whose max version and watermark are not above the owner's max version" % n),
                 desc="a delta section from a source that is not ahead of the owner changes nothing")
    P["C05"] = [c05(0b011, 1, ("quick", "thorough")), c05(0b011, 0, ("quick", "thorough")), lib_hb(3, ("quick", "thorough")), snd_decision(False, ("quick", "thorough")),
                c05(0b111, 2, ("thorough",)), c05(0b001, 3, ("thorough",)), c05(0b000, 1, ("thorough",)), snd_decision(True, ("thorough",))]
    # ---------------- C07
    def ser_ub(a, b, c, thr, n, tiers):
        return H(f"ser_ub_{thr}_{a}_{b}_{c}_{n}", f"ser_upper_bound::<{a}, {b}, {c}>({thr}, {n})", mod="serialize", macro="h_ser", unwind=40, tiers=tiers, rules=[(r"^memcmp", None, 18)],
                 covers=["upper bound attained exactly (last block stored raw)"], funcs=["serialize.rs::CompressedStreamWriter::{with_block_threshold,serialized_len_upperbound_after,append,flush_block,finish}"],
                 cuts=["zstd = any-length codec model (compress returns any length <= input, or fails)"], bounds={"block_threshold": thr, "items": f"{n} byte-array items of lengths {[a, b, c][:n]} (each <= one block), contents symbolic"},
                 desc="finished stream never longer than the upper bound announced before the last append", mem=14)
    def syn_budget(n, tiers):
        return H(f"lib_syn_budget_{n}", f"lib_syn_budget({n})", mod="lib", macro="h_lib_contract", unwind=4, tiers=tiers, rules=R_COMMON, covers=["a SYN-ACK can fill the datagram exactly"],
                 funcs=["lib.rs::Chitchat::process_message (Syn arm: budget = limit - header - own digest)", "message.rs::ChitchatMessage::serialized_len", "digest.rs::Digest::serialized_len"],
                 cuts=[CUT_LISTENER, "ClusterState::compute_partial_delta_respecting_mtu replaced by its contract: returns a delta of ANY announced length in 1..=mtu (what ser_ub_*/snd_full_* establish for the real one)",
                       "Chitchat::compute_digest replaced by 'any digest of %d member(s)' (its real serialized_len is used)" % n],
                 bounds={"own_digest_members": n, "peer_digest": "empty", "delta_length": "symbolic 1..=budget"}, desc="SYN-ACK of the real process_message fits 65,507 bytes whenever the delta respects the budget it is handed (finding O-1, fixed)", mem=22, timeout=2400)
    P["C07"] = [syn_budget(1, ("quick", "thorough")), ser_ub(3, 5, 3, 8, 3, ("quick", "thorough")), ser_ub(6, 7, 1, 8, 2, ("quick", "thorough")), ser_ub(8, 8, 1, 8, 3, ("quick", "thorough")), ser_ub(8, 8, 8, 8, 3, ("thorough",)), snd_content(0b011, ("quick", "thorough")),
                snd_decision(False, ("quick", "thorough")), ser_ub(1, 1, 1, 8, 3, ("thorough",)), ser_ub(7, 2, 8, 8, 3, ("thorough",)), ser_ub(16, 3, 14, 16, 3, ("thorough",)), ser_ub(5, 12, 16, 16, 3, ("thorough",)),
                snd_content(0b111, ("thorough",)), snd_content(0b001, ("thorough",)), snd_content(0b101, ("thorough",)), snd_decision(True, ("thorough",)),
                snd_full(0b000), snd_full(0b001), snd_pat(0b001, 0b110, "RAA", ("quick", "thorough")), snd_pat(0b001, 0b101, "ARA", ("quick", "thorough"), ["truncated between key-values"]),
                snd_pat(0b001, 0b111111, "AAAAAA", ("thorough",), ["SetMaxVersion for an empty tail"])]
    # ---------------- C09
    def c09(mask, n, tiers):
        return H(f"c09_{m3(mask)}_{n}", f"c09_hostile_delta({mask}, {n}, 7)", tiers=tiers, covers=["reset taken", "incremental"] if n else ["reset taken"], funcs=F_APPLY, cuts=[CUT_LISTENER],
                 bounds=dict(B3, copy_mask=m3(mask), delta="any header, %d key-values with strictly increasing versions, any max version >= the last one (what the decoder admits)" % n),
                 desc="deltas only a hostile peer can send: no panic, frontier monotone")
    def grouping(kinds, n, tiers):
        names = "NKS"
        label = "".join(names[k] for k in kinds[:n])
        return H(f"delta_group_{label}", f"delta_grouping({n}, {kinds[0]}, {kinds[1]}, {kinds[2]})", mod="delta", macro="h_delta", unwind=5, tiers=tiers, rules=R_COMMON,
                 covers=["multi-op sequence accepted", "sequence refused"] if kinds[0] == 0 and n >= 2 else ["sequence refused"], funcs=["delta.rs::DeltaBuilder::{apply_op,flush,finish}"],
                 bounds={"ops": f"{n} ops of kinds {label} (N = member header, K = key-value, S = SetMaxVersion), payloads symbolic, member ids in {{x, y}}"},
                 desc="decoder grouping/validation of an op sequence against the reference grouping", mem=12, timeout=1500)
    P["C09"] = [c09(0b001, 2, ("quick", "thorough")), c09(0b011, 1, ("quick", "thorough")), grouping((0, 1, 2), 3, ("quick", "thorough")), grouping((1, 0, 0), 2, ("quick", "thorough")),
                grouping((0, 1, 0), 2, ("quick", "thorough")), grouping((2, 0, 0), 1, ("quick", "thorough"))] + \
        [c09(m, n, ("thorough",)) for m in (0b000, 0b011, 0b111) for n in (0, 2, 3)] + [grouping((0, 2, 1), 3, ("thorough",)), grouping((0, 2, 2), 3, ("thorough",))]
    P["C03"] += [grouping((0, 1, 2), 3, ("quick", "thorough")), grouping((0, 2, 1), 3, ("thorough",))]
    # ---------------- C12
    def fd_sched(grace, tiers):
        return H(f"fd_sched_{grace}", f"fd_schedule_gc({grace})", mod="failure_detector", macro="h_fd", unwind=6, tiers=tiers, rules=R_COMMON, covers=["scheduled for deletion", "not yet scheduled"],
                 funcs=["failure_detector.rs::FailureDetector::{scheduled_for_deletion_nodes,garbage_collect}"], bounds={"dead_node_grace_period_s": grace, "time_since_death": "symbolic, 0..4x grace, nanosecond resolution"},
                 desc="scheduled-for-deletion after half the grace period, removal at the full period", cuts=["clock = vstd::time::NOW"], mem=6)
    P["C12"] = [fd_sched(86400, ("quick", "thorough")), fd_sched(10, ("quick", "thorough")), lib_hb(0, ("quick", "thorough")), lib_hb(2, ("thorough",), mem=30), lib_hb(1, ("thorough",), mem=20),
                snd_decision(False, ("quick", "thorough")), classify(0, ("quick", "thorough")), classify(4, ("thorough",)), fd_sched(3600, ("thorough",)), snd_decision(True, ("thorough",))]
    P["C11"] += [lib_hb(0, ("quick", "thorough")), lib_hb(1, ("thorough",), mem=20)]
    P["C11"] += [H("c11_try_set_heartbeat", "c11_hb_kernel()", covers=["two fresh heartbeats in a row", "lower heartbeat after a known one"], funcs=["state.rs::NodeState::try_set_heartbeat"],
                   bounds={"heartbeats": "three reports, u64 full width, symbolic (first one included: the initial-value rule)"}, cuts=[CUT_LISTENER],
                   desc="a report is fresh evidence iff strictly higher than a known non-initial value; equal / lower / replayed values change nothing", mem=6)]
    def digest(two, tiers):
        return H(f"c12_digest_{2 if two else 1}", f"c12_digest({str(two).lower()})", tiers=tiers, covers=["one member scheduled for deletion"], funcs=["state.rs::ClusterState::compute_digest", "state.rs::NodeState::digest"],
                 cuts=[CUT_LISTENER], bounds={"members": 2 if two else 1, "scheduled_for_deletion": "symbolic", "frontier_heartbeat": "u64 symbolic"}, desc="digest lists exactly the members not scheduled for deletion, verbatim", mem=20 if two else 6, timeout=1800)
    P["C12"] += [digest(False, ("quick", "thorough")), digest(True, ("thorough",))]
    # ---------------- C16
    OWN = {0: "'c'", 1: "''", 2: "'cc'"}
    def c16(kind, known, tiers):
        return H(f"lib_badcluster_any_{kind}_{'known' if known else 'unknown'}", f"lib_bad_cluster({10 + kind}, {str(known).lower()})", mod="lib", macro="h_lib_c16", unwind=4, tiers=tiers, rules=R_COMMON,
                 covers=(["foreign id differs by case only", "foreign id empty", "own id is a prefix of the foreign id"] if kind == 0 else []) + (["foreign digest names an unknown member"] if not known else []),
                 funcs=["lib.rs::Chitchat::process_message (Syn arm, cluster id test)", "lib.rs::Chitchat::update_self_heartbeat"],
                 cuts=[CUT_LISTENER, "Chitchat::report_heartbeats_in_digest and Chitchat::process_delta replaced by a marker (a foreign SYN must never reach them)",
                       "compute_partial_delta_respecting_mtu / compute_digest replaced by trivial stubs (only reachable on the same-cluster path, where any reply other than BadCluster already is the violation)"],
                 bounds={"own cluster id": OWN[kind], "foreign cluster id": "ANY ASCII string of 0..=2 bytes different from the own id (length and bytes symbolic)",
                         "digest": "one member, contents symbolic (all u64)", "member of the digest known to the node": known},
                 desc="a SYN of another cluster is answered with BadCluster only; digest never processed; membership, copies, detector untouched; own heartbeat ticks once", mem=24 if kind == 1 else 14, timeout=2400)
    P["C16"] = [H("lib_badcluster_reply", "lib_bad_cluster_reply()", mod="lib", macro="h_lib", unwind=4, rules=R_COMMON, funcs=["lib.rs::Chitchat::process_message (BadCluster arm)"], cuts=[CUT_LISTENER],
                  bounds={"state": "own node only"}, desc="a rejection is terminal for the initiator and changes nothing", mem=8),
                c16(0, False, ("quick", "thorough")), c16(0, True, ("quick", "thorough")), c16(1, False, ("thorough",)), c16(1, True, ("thorough",)), c16(2, False, ("thorough",)), c16(2, True, ("thorough",))]
    # ---------------- C20
    ARMS = {0: "Syn (own cluster)", 1: "SynAck", 2: "Ack", 3: "BadCluster", 4: "Syn (other cluster)", 5: "process_delta called directly, two messages in a row (each may or may not reset)"}
    def c20m(arm, cb, tiers, mem=14):
        return H(f"lib_c20_msg_{arm}_{'cb' if cb else 'nocb'}", f"lib_c20_message({arm}, {str(cb).lower()})", mod="lib", macro="h_lib_c20", unwind=4, tiers=tiers, rules=R_COMMON,
                 covers=(["the delta of the message reset a copy", "the delta of the message reset nothing"] if arm in (1, 2, 5) else []) + (["two messages in a row each reset a copy"] if arm == 5 else []),
                 funcs=["lib.rs::Chitchat::process_message", "lib.rs::Chitchat::process_delta"],
                 cuts=[CUT_LISTENER, "ClusterState::apply_delta replaced by its contract: returns ANY bool (the reset flag) and counts its calls; the meaning of the flag is decided on the real function by c20_scalar_* / c20_apply_*",
                       "Chitchat::report_heartbeats_in_digest replaced by a marker; compute_partial_delta_respecting_mtu / compute_digest by trivial stubs (the reply's content is not C20's subject)"],
                 bounds={"message": ARMS[arm], "callback configured": cb, "digest": "one member, contents symbolic" if arm in (0, 1, 4) else "-", "delta": "empty (its content only matters to apply_delta, which is cut)"},
                 desc="message -> process_delta -> callback glue: the callback runs exactly once per message iff applying its delta reported a reset, never otherwise (witnesses: the delta of a SynAck / Ack is applied)", mem=mem, timeout=2400)
    def c20s(sections, tiers):
        return H(f"c20_scalar_{sections}", f"c20_scalar({sections})", covers=["no reset"] + (["two copies reset by one message"] if sections == 2 else []), tiers=tiers, funcs=F_APPLY + ["state.rs::ClusterState::apply_delta"], cuts=[CUT_LISTENER],
                 bounds={"members in the delta": sections, "copies": "key-less (possibly empty / only just created), watermark and max version any u64", "sections": "key-less, from / watermark / max version any u64"},
                 desc="ClusterState::apply_delta returns true iff at least one copy was wiped and restarted from version 0 (however many were)", mem=24, timeout=2400, cap=3)
    def c20t(mask, n, tiers):
        return H(f"c20_status_{m3(mask)}_{n}", f"c20_status({mask}, {n}, 7)", covers=["reset taken", "incremental", "behind a collection but the section does not restart from 0: rejected"], tiers=tiers,
                 funcs=F_APPLY, cuts=[CUT_LISTENER], bounds=dict(B3, receiver_mask=m3(mask), delta="ANY section with %d key-values (from, watermark, max version, keys, versions, statuses symbolic)" % n),
                 desc="a section is reported as a reset iff the copy was actually reset (watermark moved to the sender's); a reset copy is rebuilt from 0 and nothing from before the reset survives", mem=14, timeout=1800)
    def c20g(sections, unknown, tiers):
        return H(f"c20_agg_{sections}_{format(unknown, '03b')}", f"c20_aggregate({sections}, {unknown})", macro="h_c20_agg", unwind=5, rules=R_COMMON + [(r"ClusterState::apply_delta", None, 5)], tiers=tiers, covers=["one of several copies reset", "every section about a known member applied"] + (["two copies reset by one message"] if sections - bin(unknown).count("1") >= 2 else []),
                 funcs=["state.rs::ClusterState::apply_delta"], cuts=[CUT_LISTENER, "NodeState::apply_delta replaced by its contract: returns ANY of Reject / Apply / ApplyAfterReset per section and counts (what decides the status is c20_scalar_* / c20_apply_*)"],
                 bounds={"members in the delta": sections, "members unknown to the receiver (bit i = i-th section)": format(unknown, "03b")},
                 desc="the reset flag of a delta is the OR over its sections, whatever their number, order and status; sections about unknown members are skipped", mem=14, timeout=1800)
    P["C20"] = [c20g(2, 0, ("quick", "thorough")), c20g(3, 0, ("thorough",)), c20g(3, 0b010, ("quick", "thorough")), c20g(3, 0b001, ("thorough",)),
                c20m(5, True, ("quick", "thorough"), mem=8), c20m(5, False, ("quick", "thorough"), mem=8), c20m(2, True, ("quick", "thorough"), mem=8), c20m(1, True, ("quick", "thorough")), c20m(0, True, ("thorough",)),
                c20m(3, True, ("thorough",), mem=8), c20m(4, True, ("thorough",)), c20m(2, False, ("thorough",), mem=8), c20m(1, False, ("thorough",)),
                c20t(0b000, 1, ("quick", "thorough")), c20t(0b011, 2, ("quick", "thorough")), c20t(0b000, 0, ("thorough",)), c20t(0b001, 1, ("thorough",)), c20t(0b111, 1, ("thorough",)), c20t(0b011, 0, ("thorough",))]
    # ---------------- C15
    PFX = {0: "''", 1: "'a'", 2: "'e-acute'", 3: "'a e-acute'", 4: "'grinning-face (4 bytes)'", 5: "'aaaa' (decoy: never a prefix of a 2-symbol key, sorts inside the scanned range)"}
    def c15d(p0, p1, two, drop, forever, tiers):
        return H(f"c15_d_{p0}_{p1 if two else 'x'}{'_drop' if drop else ''}{'_fv' if forever else ''}", f"c15_dispatch({p0}, {p1}, {str(two).lower()}, {str(drop).lower()}, {str(forever).lower()})",
                 mod="listener", macro="h_lst", unwind=6, tiers=tiers, rules=[(r"^memcmp", None, 9)], covers=["key starts with a multi-byte character"],
                 funcs=["listener.rs::Listeners::{subscribe_event,trigger_event}", "listener.rs::InnerListeners::{subscribe_event,trigger_event,remove_listener}", "listener.rs::ListenerHandle::{forever,drop}", "lib.rs::KeyChangeEvent::strip_key_prefix"],
                 bounds={"prefixes": [PFX[p0]] + ([PFX[p1]] if two else []), "key": "0..=2 symbols chosen by the solver from {a (1 byte), e-acute (2 bytes), grinning-face (4 bytes)}", "first_handle_dropped": drop, "second_handle_forever": forever},
                 desc="each live subscription is called exactly once iff its prefix is a prefix of the key, with the stripped key", mem=14, timeout=1800, cuts=["callbacks are plain fn pointers bumping per-subscription counters"])
    def c15n(w, tiers):
        return H(f"c15_nopanic_{int(w)}", f"c15_any_key_no_panic({str(w).lower()})", mod="listener", macro="h_lst", unwind=6, tiers=tiers, rules=[(r"^memcmp", None, 9)], covers=["three-byte first character"],
                 funcs=["listener.rs::InnerListeners::trigger_event"], bounds={"key": "0..=2 arbitrary chars (all UTF-8 encodings of 1-4 bytes)", "subscriptions": "none" if not w else "one, empty prefix"},
                 desc="dispatch never panics on any key (F-2 regression check)", mem=14, timeout=1800)
    def c15s(p, order, late, tiers):
        return H(f"c15_same_{p}_{order}{'_late' if late else ''}", f"c15_same_prefix({p}, {order}, {str(late).lower()})", mod="listener", macro="h_lst", unwind=6, tiers=tiers, rules=[(r"^memcmp", None, 9)], covers=["the shared prefix matches the key"],
                 funcs=["listener.rs::Listeners::{subscribe_event,trigger_event}", "listener.rs::InnerListeners::{subscribe_event,trigger_event,remove_listener}", "listener.rs::ListenerHandle::drop"],
                 bounds={"prefix shared by all subscriptions": PFX[p], "order": "subscribe A, subscribe B, drop " + ("A" if order == 0 else "B") + ", subscribe C" + (", drop " + ("B" if order == 0 else "A") if late else "") + ", write",
                         "key": "0..=1 symbols chosen by the solver from {a (1 byte), e-acute (2 bytes), grinning-face (4 bytes)}"},
                 desc="subscriptions sharing one prefix stay independent across drop / re-subscribe: each live one is called exactly once per matching write, a dropped one never", mem=14, timeout=1800,
                 cuts=["callbacks are plain fn pointers bumping per-subscription counters"])
    P["C15"] = [c15s(1, 0, False, ("quick", "thorough")), c15s(1, 0, True, ("thorough",)), c15s(1, 1, False, ("thorough",)), c15s(0, 0, False, ("thorough",)), c15s(2, 1, True, ("thorough",))] + [c15n(False, ("quick", "thorough")), c15d(5, 3, True, False, False, ("quick", "thorough")), c15d(1, 0, False, False, False, ("thorough",)), c15d(5, 1, True, False, False, ("thorough",)), c15d(2, 0, True, False, False, ("thorough",)), c15d(1, 3, True, True, True, ("quick", "thorough")),
                c15n(True, ("thorough",))] + [c15d(a, b, True, False, False, ("thorough",)) for (a, b) in ((0, 1), (1, 3), (2, 4), (3, 4), (0, 4), (1, 2))] + \
        [c15d(3, 0, False, False, False, ("thorough",)), c15d(4, 0, False, False, False, ("thorough",)), c15d(0, 1, True, True, False, ("thorough",)), c15d(2, 2, True, False, True, ("thorough",))]
    # ---------------- C17
    def c17(n, tiers):
        return H(f"c17_{n}", f"c17_select({n})", mod="server", macro="h_srv", unwind=6, tiers=tiers, rules=R_COMMON, cap=4,
                 covers=["isolated with a seed known", "dead peer contacted"] + (["three targets"] if n >= 3 else []),
                 funcs=["server.rs::select_nodes_for_gossip", "server.rs::select_dead_node_to_gossip_with", "server.rs::select_seed_node_to_gossip_with"],
                 bounds={"addresses": n, "membership": "peers/live/dead/seeds symbolic per address (live, dead disjoint subsets of peers)", "random_generator": "every draw symbolic; sample/choose by contract"},
                 cuts=["rand::seq::IteratorRandom::{sample,choose} modelled by contract (any admissible selection)", "--nan-check off (0/0 probability is computed and short-circuited)"],
                 desc="at most 3 distinct targets from the right pool; dead/seed picks from their sets; seed contacted when isolated; dead contacted when dead > live", mem=8)
    P["C17"] = [c17(2, ("quick", "thorough")), c17(3, ("quick", "thorough")), c17(4, ("thorough",)), c17(1, ("quick", "thorough"))]
    return P
